import sys, subprocess
name, path, old, new = sys.argv[1:5]
s = open(path).read()
assert s.count(old) >= 1, "pattern not found"
open(path, 'w').write(s.replace(old, new, 1))
d = subprocess.run(['git', 'diff'], capture_output=True, text=True, cwd='/repo').stdout
open(f'/verif/mutants/{name}.diff', 'w').write(d)
subprocess.run(['git', 'checkout', '--', '.'], cwd='/repo')
print(name, len(d.splitlines()), 'lines')
