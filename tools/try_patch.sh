#!/bin/bash
# usage: tools/try_patch.sh <patch.diff> <PID> [PID...]   -- applies the patch to /repo's working tree, runs the quick
# checks, and always restores the tree.  Prints one line per check: PID exit-code.
patch="$(realpath "$1")"; shift
cd /repo || exit 9
if ! git diff --quiet; then echo "/repo working tree is dirty"; exit 9; fi
git apply "$patch" || { echo "patch does not apply"; exit 9; }
trap 'git -C /repo checkout -- . ' EXIT
cd /verif
for pid in "$@"; do
  out=$(VERIF_OUT_DIR=${VERIF_OUT_DIR:-/tmp/verif-trial} PYTHONHASHSEED=0 VERIF_TIER=${VERIF_TIER:-quick} /venv/bin/python check.py "$pid" --tier ${VERIF_TIER:-quick} 2>&1); rc=$?
  echo "$pid rc=$rc $(echo "$out" | grep -c '^VIOLATION') violation line(s)"
  echo "$out" | grep -E '^(VIOLATION|  sig=|KNOWN|INFRA)' | head -${SHOW:-4} | cut -c1-400
done
