#!/bin/bash
# usage: tools/rebase_seed.sh <dir-with-patch.diff> ...   -- try to carry a seeded patch that no longer applies over to
# /repo's HEAD with a 3-way merge (the base blobs are in /repo's object store); writes patch_rebased.diff next to it
# when the merge is clean.  Works in a scratch worktree under /tmp which is removed again.
wt=$(mktemp -d /tmp/rebase-wt.XXXXXX); rmdir "$wt"
git -C /repo worktree add -q --detach "$wt" HEAD || exit 9
trap 'git -C /repo worktree remove --force "$wt"' EXIT
for d in "$@"; do
  p="$d/patch.diff"; [ -f "$d" ] && { p="$d"; d=$(dirname "$d"); }
  ( cd "$wt" && git checkout -q -- . && git clean -fdq
    if git apply --check "$p" 2>/dev/null; then echo "$d: applies as it is"; exit 0; fi
    if git apply --3way "$p" >/dev/null 2>&1 && ! grep -rq '^<<<<<<<' src; then
      git diff HEAD > "$d/patch_rebased.diff.new" && mv "$d/patch_rebased.diff.new" "${p%.diff}_rebased.diff" && echo "$d: rebased (3-way, clean)"
    else
      echo "$d: CONFLICT - by hand"
    fi
    git reset -q --hard HEAD )
done
