import asyncio, ssl, sys, pathlib, tempfile
import trustme, aioftp
async def main():
    ca = trustme.CA(); cert = ca.issue_cert("127.0.0.1", "localhost")
    sctx = ssl.create_default_context(ssl.Purpose.CLIENT_AUTH); cert.configure_cert(sctx)
    cctx = ssl.create_default_context(); ca.configure_trust(cctx)
    bad = []
    for st in (None, 5):
        server = aioftp.Server([aioftp.User()], path_io_factory=aioftp.MemoryPathIO, ssl=sctx, socket_timeout=st)
        await server.start("127.0.0.1", 0)
        host, port = server.address
        c = aioftp.Client(ssl=cctx, socket_timeout=st, path_io_factory=aioftp.MemoryPathIO)
        try:
            await c.connect(host, port); await c.login()
            async with c.upload_stream("f") as s:
                await s.write(b"x" * 100000)
            async with c.download_stream("f") as s:
                data = await s.read()
            assert len(data) == 100000, len(data)
            names = [str(p) for p, i in await c.list("/")]
            assert names == ["/f"], names
            assert str(await c.get_current_directory()) == "/"
            await c.quit()
            print("socket_timeout", st, "ok")
        except Exception as exc:
            bad.append((st, repr(exc))); print("socket_timeout", st, "FAILED", repr(exc))
        await server.close()
    sys.exit(1 if bad else 0)
asyncio.run(main())
