#!/bin/bash
# quick triage without touching /repo: run the property's quick check against the seed's own worktree sources
pid="$1"; name="${2:-$1}"; wt=/tmp/seed/$name; out=/tmp/seed/out/$name
cd "$wt" && git checkout -q -- . && git checkout -q --detach "$(git -C /repo rev-parse HEAD)" && { if [ -f "$out/patch_rebased.diff" ]; then git apply "$out/patch_rebased.diff"; else git apply "$out/patch.diff"; fi; } || { echo "$name: patch problem"; exit 9; }
cd /verif
res=$(VERIF_OUT_DIR=${VERIF_OUT_DIR:-/tmp/verif-trial} VERIF_AIOFTP_SRC=$wt/src PYTHONHASHSEED=0 /venv/bin/python check.py $pid --tier quick 2>&1); rc=$?
echo "$name -> $pid rc=$rc $(echo "$res" | grep -c '^VIOLATION') violation line(s)"
echo "$res" | grep -E '^(VIOLATION|  sig=|INFRA)' | head -${SHOW:-2} | cut -c1-330
