FIX_COMMITS = ["d6ae502 (passive start-up cancellation: port/listener leak)",
               "40b0ee0 (data connection not closed when open() fails or is cancelled)",
               "5c25b75 (ABOR before the data connection killed the session)",
               "4aed819 (ABOR unanswered when the worker had just finished)",
               "2039146 (REST with non-decimal digit crashed the session)",
               "e81490a (EPSV arg / PASV-on-IPv6 replies closed the session)",
               "e3fcd28 (REST offset applied to every following transfer)",
               "238797d (MemoryPathIO r+b created missing files)",
               "eae4544 (MemoryPathIO.rename lost the source)",
               "826c080 (Windows-flavour base path escape via backslash segments)",
               "b5dacba (STOR/APPE on the virtual root probed the parent of the base directory)",
               "1ca8d1a (double quotes in directory names mangled by PWD / its parser)",
               "4e53b5c (Client.upload ignored leading destination components for directories)",
               "9d69568 (Client.list KeyError on an MLSD entry without a type fact)",
               "0058bea (REST offset survived a refused transfer command)",
               "b2387d7 (undecodable PASS line leaked a password byte to the logs)",
               "8aa468d (pending RNFR survived a re-login)", "958879d (pipelined PASV/EPSV lost a data port)",
               "369b607 (MemoryPathIO.rename of a missing source onto itself)",
               "2022c75 (concurrent RETRs of one file on MemoryPathIO)",
               "f70594b (pipelined USER/PASS overlapped with later commands when the user manager suspends)",
               "ec756de (data connection accepted during session teardown never closed)",
               "732de19 (Throttle.wait helper tasks outlived a cancelled transfer / Server.close())",
               "5b1a18b (LIST line without a name silently dropped as a '.' entry)",
               "e5905ae (QUIT from a peer that does not read held the session for ever)",
               "e0f7c47 (control connection accepted just before Server.close() survived the close)",
               "1dce1fd (ABOR before the transfer worker's first step killed the session)",
               "d898b79 (MemoryPathIO listing skipped an entry when an earlier sibling was removed meanwhile)",
               "0a8c063 (command sent before USER carried out in the new user's base directory)",
               "686c2aa (REST with thousands of digits ended the session without a reply)",
               "3adc022 (restart offset survived an unsupported command)",
               "a25681f (restart offset lost when the next pipelined command was dispatched first)",
               "0ea6c59 (Client.list dropped MLSD lines without a name)",
               "f682345 (line break inside a command / password sent through)",
               "4962d4f (ABOR right behind a transfer command overtook it)",
               "2775fad (data connection dropped by the peer ended the whole session)",
               "96efe3c (cancelling Server.run() never finished while a session was open)",
               "d96249a (Throttle forgave a rounded number of bytes at every reset)",
               "027100e (ThrottleStreamIO.readexactly not throttled)",
               "8509ed0 (non-reading peer kept the socket of a given-up connection)",
               "54bbdb1 (finished transfer kept its data socket while the buffered tail was untaken)",
               "d075526 (LIST lines with S / T mode characters made the listing fail)",
               "253090b (Server.close() returned while a starting passive listener was open)",
               "ca3f636 (home_path not normalised became the working directory)",
               "d948632 (windows-flavour base: backslash / drive names were second virtual paths)",
               "698672c (nameless listing line ending in a dot still dropped)",
               "955e4e1 (TLS + socket_timeout: AttributeError in StreamIO.close (regression of 54bbdb1))",
               "8b0da87 (rest of a rejected reply read as the next reply)",
               "4eeed1e (command cut off by end of stream carried out)",
               "1a8bdb8 (verb with a non-ascii letter that lower() folds to ascii taken for the command)",
               "c48356f (listing entry ../../x made Client.download write outside the destination)",
               "ef7c23a (QUIT waited for ever when the reply writer had already failed)",
               "fc68ce7 (QUIT pipelined behind a command still being carried out dropped its reply)",
               "886db0d (ABOR returned while the cancelled worker was still winding up)",
               "7549231 (PASV refused on ipv6 kept its listener)",
               "d993a3c (close() returned while a session was still winding up)",
               "600ece4 (quadratic path resolution and permission lookup)",
               "016f7da (ABOR unanswered when winding up failed in the backend)",
               "ad3a684 (421 although a configured port was free and untried)",
               "7b9cfc6 (given-up pending data connection kept, the new one turned away)",
               "ca6ffb5 (stray 226 after a backend time-out inside a transfer (regression of 016f7da))",
               "5406105 (anonymous account with a password logged in without it)",
               "1f7834a (502 quoted a long unknown verb in full)",
               "f90dd22 (Code.matches accepted codes shorter than the mask)",
               "6680712 (client data connection opened without connection_timeout)",
               "30288fd (second of two waiting transfers crashed the session)",
               "913f430 (stat() fallback without MLST failed for '.', '..' and '')",
               "25ab17f (unreadable directory listed as empty with a success reply)",
               "dfd8374 (ThrottleStreamIO default throttles dict shared by all streams)",
               "b02d52b (repr() of a User showed the password)",
               "6d1bc94 (worker wrapper: task looked up once; amends ca6ffb5)",
               "820558f (listing of a name the server encoding cannot express ended the session)",
               "4824c94 (listing parsers: non-ASCII digits, years below 1000)",
               "2fbf5a3 (CWD / CDUP are dispatcher barriers)",
               "f646d71 (data socket of a finished transfer outlived its session)",
               "224efa1 (command lines lose their line end and trailing blanks only)",
               "b3efc7f (reply lines lose their line end and trailing blanks only)"]

# dimensions added after the fourth wave of seeded changes (plug-in APIs as part of the input space)
EXTRA = {
    'C01':
        ' Also on custom backends the PathIO API allows: written data reaching the file only at close() with '
        'a close() that suspends (read-back by another session explored right after the completion reply), '
        'and read() returning fewer bytes than asked for. The simulated transport keeps queued data by '
        'reference beyond a 0-2 byte kernel buffer (as asyncio does), so buffer re-use by a backend or stream '
        'shows; one read() until EOF and client limits below the file size are client read styles.'
        ' REST, a transfer and one more command in one segment (memory, path checks waiting for executor jobs, AsyncPathIO; <= d order deviations): the transfer starts at the offset whatever follows it.'
        ' Impatient readers (every read given up after 0.3 / 0.7 s and re-issued) under every throttle.',
    'C02':
        " Also: a pipelined CWD while the previous command's path checks are suspended in the backend (every "
        'completion order with <= d deviations): each mutating backend call must name a path for which the '
        'permission lookup was made. Names beginning with a blank are in the wire alphabet; an exception of '
        'the path resolver is a violation.'
        " Every home_path setting (doubled slashes, '.', '..' detours): PWD, relative resolution and permission lookup right after login go by the normalised form. On every base the components of the real path below the base must be the components of the virtual path (one location, one virtual name - matters for Windows-flavour bases)."
        ' File-system backends serving a relative base directory with names a shell would expand (~, ~root, $HOME), judged on the real file system.'
        ' One-byte server encodings with names made of the telnet command bytes.',
    'C03':
        ' Also with a user manager whose get_user/authenticate/notify_logout really suspend: every pipelined '
        'burst of 2-3 login commands and probes from 5 pre-states under every completion order with <= d '
        'deviations - never more authority (served probes, final login) than executing the burst in order. A '
        'user table with an empty-string password.'
        ' Relative-path transfers accepted under one login whose data connection is made after USER named another account.'
        " Every verb of the server's own command table beyond the 25 of the model is probed in every login state.",
    'C04':
        ' Also: a pipelined CWD while the path checks of the previous command wait for executor jobs (every '
        'completion order with <= d deviations) or for one slow operation kind; effect oracle: the tree '
        'changes only where writing is allowed and nothing of an unreadable location is revealed.'
        ' Directory names that differ only in their Unicode normalisation form (entry and request in either form, 12 verbs, effect oracle).'
        ' Names with two dots inside them.',
    'C05':
        ' Also every command of the alphabet on a server with path_timeout whose backend calls outlast it: '
        'exactly one final reply, session continues. Arguments with doubled leading slashes; a server that '
        'waits for the data connection without limit.'
        ' REST with thousands of digits; an unsupported verb between REST and the transfer.'
        ' Every attribute name of the server object sent as a verb.'
        " Verbs from the server's own table that the model does not know; verbs spelled with the kelvin sign; PASV on an IPv6 control connection from five pre-states.",
    'C06':
        ' The line alphabet includes the characters str.splitlines() treats as boundaries (VT, FF, GS, NEL, '
        'LS, lone CR). Every high byte of latin-1 / cp1251 alone, doubled and tripled; replies the server '
        'encoding cannot represent, through the real writer and a real client.'
        ' Reply text that is not in a Unicode normalisation form.'
        ' Overlapping wait / expected masks; after a rejected reply the very next reply must be the next one sent.',
    'C07':
        ' Also: the k-th backend call of a listing fails (k=1..15, MLSD and LIST): a listing reported '
        'complete has every entry exactly once. A listing whose data connection arrives 10 s .. 1 h after the '
        'verb with an entry created in between; another session replacing files and directories between two '
        'looks, on all three backends.'
        ' Real directories whose entries carry every special mode bit with and without x (S, T, s, t) through MLSD, LIST and a LIST-only server.'
        ' Fractional modification times, within half a microsecond of the next second.',
    'C08':
        ' Every high byte of the single-byte encodings (alone, doubled, after 0xFF); the bare relative name '
        'nested in itself and re-made after removal under another spelling or by another session.'
        ' Names a shell or a home-directory convention would read something into (~, $HOME, *, ?, [a], {a,b}).'
        ' A transfer by relative name whose data connection is made after a CWD.',
    'C09':
        ' Also with backends (client and server side) whose read() returns 1 or 3 bytes at a time. '
        "Destinations with doubled slashes; entries dated on a leap day / New Year's Eve / 1971 / 2099 on "
        'LIST-only servers.'
        " Trees whose names contain the listing formats' separators."
        ' Sibling names that differ in case or normalisation form only.',
    'C10':
        ' Also with a suspending user manager: BFS on it and disconnect / pipelined-USER races inside its '
        'awaits; the alphabet includes an empty line and an unknown verb. Replies the server encoding cannot '
        'represent; server restart and a failing user manager in the middle of a re-login; counters must be '
        'exactly at their maximum once everybody has gone.'
        ' The last slot being given back while the next client connects (at every turn of the tear-down).'
        ' Several commands and QUIT in one segment from a peer that is gone at once (<= 3 deviations incl. done-set orders); a peer that reconnects from the same (host, port).',
    'C11':
        ' Also on an IPv6 control connection (PASV answered 503, EPSV served). close() and a second start() '
        'after short histories, with the pool given as a list or as a one-shot generator.'
        ' Listener start-up that takes seconds, with and without a socket_timeout shorter than that.'
        ' 421 only when no port of the pool could have been bound (three sessions, three attempts per port); start() keyword arguments.',
    'C12':
        ' Also on a speed-limited server and with a suspending user manager, with additional cuts placed '
        'before every advance of virtual time (the server sleeps in a throttle pause or a slow backend call); '
        'the clock is frozen at the cut itself. server.close() while another client is connecting.'
        ' Shutdown by cancelling Server.run() (SimListener.serve_forever copies CPython 3.12.1: it waits for every accepted connection). Sockets and listeners are also sampled at the very moment close() returns; a closing socket that still waits for a non-reading peer to take buffered data counts as open.'
        ' Scripts that re-login while a transfer is open.'
        ' IPv6 control connections; tasks alive at the moment close() returns.',
    'C13':
        ' A backend whose close() returns a value; a data connection opened before other commands must '
        'survive their failures.'
        ' Failing commands followed by QUIT in one segment with the failing call suspended first; localised error texts on latin-1 / ascii servers; the client giving its data connection up and reconnecting without PASV after a refused transfer.',
    'C14':
        ' Also on the executor-based backend (ABOR racing with file operations in flight). Also with a second '
        'data connection opened in advance for the next transfer just before the ABOR, and that transfer then '
        'run without a new PASV.'
        ' The client dropping its data connection (close / reset) right before ABOR. An ABOR sent behind the verb is no longer allowed to overtake it. A closing data socket that waits for a non-reading peer counts as open.'
        " Speed-limited servers with the next command in the ABOR's segment."
        ' The pipelined follow-up also on the executor backend; the backend failing at close() of the aborted file; the spare connection must survive the ABOR.',
    'C15':
        ' Logins of the same account during the measured transfers; LIST and MLSD of a large directory as '
        'throttled transfers.'
        " Every public read path (read, readline, readexactly); reset periods below one byte's time (limit 100, reset 0.001/0.01, 1-byte blocks, all gap sequences to length 7/9) with start times compared to 1e-6 s - no per-operation rounding allowance."
        ' Stream time-outs a quarter of one throttle pause on the throttling side.'
        ' One client moving many small files one after the other.',
    'C16':
        ' Also with a user manager whose logout notification takes 5 s: the sockets must still be released at '
        'the bound; and sessions that end with QUIT (alone or pipelined behind other commands) from a peer '
        'that does not read. Throttle pauses longer than the timeouts (a peer that never stalls is never '
        'dropped); a data peer that stops reading while the control connection is read.'
        " Release means the socket is gone (connection_lost), not that close() was called: a closing transport that waits for a non-reading peer is still held. Downloads and listings whose tail stays in the transport's write buffer (SimNet with a kernel send buffer) while the data peer does not read."
        ' Login commands sent while a transfer is open, then silence.',
    'C17':
        " Every backend call on a session's own directory must come from the PathIO instance created for that "
        "session's Connection (custom backends read it). A limited user's session that dies awkwardly "
        'followed by the next session; two users with different bases and permissions on the same virtual '
        'paths.'
        ' A session turned away because every configured passive port is busy, then the next session.'
        ' Pairs with transfers suspended in both sessions at once, each in a child process with a wall-clock budget (a lock held across an await stops the whole process).',
    'C18':
        ' Including uploads sent in two pieces with an MLST of the same file between them.'
        ' Two-session histories: what one session looked at is changed by another, then the first looks or acts again.'
        " Another session's command between the two pieces of an upload.",
    'C19':
        " LIST lines that end before the file name are explicit cases (reported, not dropped as '.'). Parser "
        'termination: pumped token runs at every token boundary, each input in a child process with a '
        'wall-clock budget.'
        ' MLSD lines without a pathname are reported, not dropped.'
        ' The parser sweep runs under all four listing-parser configurations.'
        ' Commands cut off by the end of the stream are not carried out; listing names that are not plain names never make Client.download write outside its destination (real file system); paths of 8000 / 32000 components under a wall-clock bound; a bad listing line followed by 426 / 451 / no completion still raises ValueError.',
    'C20':
        ' Also what follows an accepted login (work, re-login) alone and next to a second session of the same '
        'account that quits or vanishes. Non-ASCII spellings of PASS; a password check guarded by '
        'aioftp.with_timeout that times out.'
        ' Passwords with CR/LF inside given to Client.login: no piece of them in any log.'
        ' Peers that end lines with a bare LF or mix line ends.'
        " Commands refused by the account's permission rules after login.",
}

ENV_NOTE = ("Trusted base: the environment model (vf/simloop.py: selector, TCP, clock, executor) and the harness-side "
            "oracles; the code explored is the unmodified aioftp imported from /repo/src. Bounds are stated in the "
            "evidence file (bounds, caps_hit, exhaustive).")

CHECKS = [
    {"property_id": "C11", "level": "model_checking",
     "text": "Exhaustive enumeration, on the real aioftp.Server running on a deterministic event loop, of (a) every "
             "PASV/EPSV/data/LIST/QUIT/drop sequence over 2-3 sessions to a depth, (b) every schedule with <= d "
             "deviations of the listener start-up races, (c) every bind-fault plan; pool conservation checked at every "
             "quiescent point plus a black-box probe at the end.",
     "design_ref": "DESIGN.md §5 C11", "note": ENV_NOTE,
     "technique": "explicit-state enumeration of event histories + deviation-bounded stateless schedule exploration of the implementation"},
    {"property_id": "C12", "level": "fault_enumeration",
     "text": "Every script of a corpus covering all verbs and transfer kinds is cut (peer FIN, peer RST, server.close()) "
             "after every delivered network event, on an in-memory, a slow and an executor-based backend with a "
             "lock-step send window, under every schedule with <= 1 deviation after the cut, with 1 and 2 sessions; "
             "after the cut the clock is frozen and the SimNet ledger (sockets, listeners), the spy backend (file "
             "handles), asyncio.all_tasks and the connection table are audited; then server.close() must complete.",
     "design_ref": "DESIGN.md §5 C12", "note": ENV_NOTE,
     "technique": "exhaustive fault-point enumeration x deviation-bounded stateless schedule exploration of the implementation"},
    {"property_id": "C13", "level": "fault_enumeration",
     "text": "For every script of the corpus (all verbs that reach the backend, all transfer kinds) and every k, the "
             "k-th backend call of the session raises OSError (single fault), or every call of that operation kind "
             "from k on raises (repeated fault), on the in-memory and the blocking filesystem backend (thorough: also "
             "the executor backend and <= 1 schedule deviation), with a second healthy session interleaved; the "
             "affected command must end in 451 with no success reply, a started transfer's data socket must be closed "
             "(SimNet ledger), PWD and a fresh RETR must work afterwards and the other session's transcript must equal "
             "its solo run. Five exception kinds are injected (OSError, TimeoutError, ValueError, KeyError, RuntimeError); bursts of 1-6 pipelined failing commands plus PWD are explored under every iteration order of the finished-task set.",
     "design_ref": "DESIGN.md §5 C13", "note": ENV_NOTE,
     "technique": "exhaustive fault-point enumeration over the implementation on a deterministic event loop"},
    {"property_id": "C14", "level": "model_checking",
     "text": "ABOR is injected glued to the transfer verb and after every network event counted from it, for RETR/STOR/"
             "APPE/LIST/MLSD, file sizes around block multiples, with and without a data connection, on an immediate "
             "and a slow backend with a lock-step send window, under every schedule with <= 1 deviation, followed by "
             "each kind of follow-up; the reply sequence, data-socket closure, prefix property and follow-up behaviour "
             "are checked on every execution.",
     "design_ref": "DESIGN.md §5 C14", "note": ENV_NOTE,
     "technique": "exhaustive abort-position enumeration x deviation-bounded stateless schedule exploration of the implementation"},
    {"property_id": "C10", "level": "model_checking",
     "text": "Breadth-first search over all interleaved histories of connect/USER/PASS/QUIT/drop/reset/handler-error/"
             "idle-expiry events of 2-3 sessions (server limit 1, 2, none; per-user limits 1, 2, none), the real server "
             "being the transition function, compared step by step with a reference counter model (admission codes and "
             "counter values) and probed black-box at every state (limit fresh sessions admitted, the next refused); "
             "plus the disconnect races under every schedule with <= d deviations.",
     "design_ref": "DESIGN.md §5 C10", "note": ENV_NOTE,
     "technique": "explicit-state BFS over event histories with the implementation as transition function + reference model; deviation-bounded schedule exploration"},
    {"property_id": "C16", "level": "model_checking",
     "text": "All 8 combinations of idle/socket/wait-future timeouts (None or a value) x 12 scripts x every stall "
             "position x stall kind (peer silent, peer not reading with a closed window, data channel never connected) "
             "plus chatty sessions, in virtual time with zero latency: the observed close time of the server-side "
             "control socket must equal the timing reference exactly (no earlier than the bound, no later), 425 must "
             "arrive exactly at verb + wait_future_timeout and the session continue, and the C12 ledger must be clean "
             "after the release.",
     "design_ref": "DESIGN.md §5 C16", "note": ENV_NOTE,
     "technique": "exhaustive enumeration of configurations x stall positions on a virtual-time event loop against a timing reference model"},
    {"property_id": "C17", "level": "model_checking",
     "text": "Every merge of the event lists of every ordered pair of 11 scripts (CWD, REST, RNFR, TYPE, PASV state, "
             "uploads, downloads, ABOR, abrupt cut, re-login) working on disjoint directories is executed on one real "
             "server; pairs are also fired in the same instant under every schedule with <= 1 deviation; each session's "
             "transcript, received data and tree effects must equal its solo run. Including scripts that log in as a user with a connection limit of 2 (with and without a mistyped first password).",
     "design_ref": "DESIGN.md §5 C17", "note": ENV_NOTE,
     "technique": "exhaustive interleaving enumeration + deviation-bounded stateless schedule exploration, solo run as oracle"},
    {"property_id": "C05", "level": "model_checking",
     "text": "Breadth-first search over command histories (80-symbol alphabet: all 25 verbs with existing/missing/file/"
             "dir/alias arguments, 10 REST spellings incl. non-ASCII digits, TYPE/PROT/EPSV variants, unknown verbs, empty "
             "line, data connection made or not) with the real dispatcher as transition function on each backend; every "
             "step is compared with a sequential reference model: number/order/code of replies, PWD and MLST text, "
             "transferred bytes, listing names, the whole tree, and whether the server ended the session; states "
             "de-duplicated on (model state, white-box connection digest), plus non-de-duplicated sweeps. Plus sweeps for REST scoping (REST, any one command, then a transfer), login histories of a user with a connection limit of 1, and transfers whose data connection arrives after an intermediate command (parameters bound at verb time).",
     "design_ref": "DESIGN.md §5 C05", "note": ENV_NOTE + " The reference model (vf/model.py) is trusted; its deliberate looseness is listed in DESIGN.md §4.1.",
     "technique": "explicit-state BFS over command histories with the implementation as transition function, checked against a reference model"},
    {"property_id": "C18", "level": "model_checking",
     "text": "Relational BFS: every FTP history over a 54-symbol tree-relevant alphabet (renames onto/into/through files "
             "and directories, transfers with restart offsets to new and existing files, paths through files) is replayed "
             "on MemoryPathIO, PathIO and AsyncPathIO and compared step by step (reply classes, bytes, listing names, "
             "tree; failed commands change nothing); at the backend API 233 operations over the same universe are "
             "explored breadth-first on PathIO vs AsyncPathIO (result-or-failure and tree).",
     "design_ref": "DESIGN.md §5 C18", "note": ENV_NOTE,
     "technique": "explicit-state relational BFS: the same histories executed on three implementations and compared"},
    {"property_id": "C02", "level": "model_checking",
     "text": "Function level: Server.get_paths evaluated for every path string of <= 3 (thorough 4) segments over a "
             "14-symbol segment alphabet with 4 slash prefixes and optional trailing slash, from each of the 15 reachable "
             "working directories, for 5 POSIX base paths and a Windows-flavour base, against an independent resolver and a "
             "lexical containment oracle. Wire level: 12 path-taking verbs x 6 CWD/CDUP histories x every short path "
             "string on a spy backend rooted at /base inside a larger file system: no backend call may name a path "
             "outside the base, nothing outside may change, replies/PWD/cwd follow the reference model. Plus re-login cases: users with different base paths on one control connection (state-setting command as A, USER/PASS as B, then every path verb): no backend call may name a path outside B's base.",
     "design_ref": "DESIGN.md §5 C02", "note": ENV_NOTE,
     "technique": "bounded-exhaustive input enumeration against an independent oracle + explicit-state histories on the implementation"},
    {"property_id": "C03", "level": "model_checking",
     "text": "BFS over login histories (USER x5, PASS x3, state-carrying verbs) for three user tables to depth 4 "
             "(thorough 6), de-duplicated on login state; from every distinct state all 24 verbs are probed in upper, "
             "lower and mixed case. Every step is compared with the reference model and, while not logged in, with the "
             "oracle: no 1xx/2xx/3xx for guarded verbs, zero spy-backend calls, no new listener. Plus pipelined re-USER: USER and a guarded verb written in one segment (with and without a transfer worker of the old login still pending) - the verb must already be refused.",
     "design_ref": "DESIGN.md §5 C03", "note": ENV_NOTE,
     "technique": "explicit-state BFS over command histories with the implementation as transition function + reference model + spy backend"},
    {"property_id": "C04", "level": "model_checking",
     "text": "Function level: User.get_permissions on all 8421 ordered tables of <= 3 entries (5 paths x 4 readable/"
             "writable combinations, duplicates allowed) x every query path of depth <= 3 (thorough 4), against a longest-"
             "prefix oracle. Wire level: 7 nesting-pattern tables x 13 permission-checked verbs x 14 targets x 3 cwds x up "
             "to 8 alias spellings ('..' detours through differently-permitted directories, relative forms, doubled and "
             "trailing slashes), compared with the reference model (550 on denial, tree/cwd/pending rename unchanged). Plus late-data cases: the verb arrives before the data connection, the session changes to a differently-permitted directory while the server waits, then the connection is made - authorisation and transfer must use the location addressed when the verb arrived.",
     "design_ref": "DESIGN.md §5 C04", "note": ENV_NOTE,
     "technique": "bounded-exhaustive input enumeration against an independent oracle + exhaustive wire cases against a reference model"},
    {"property_id": "C01", "level": "model_checking",
     "text": "Through the real client and server: every (op in STOR/APPE/RETR with and without REST, new/existing target, "
             "payload length around block multiples, offset 0/inside/at end/beyond, block size, client chunking incl. all "
             "compositions of tiny payloads, backend, passive mode, throttle) case is executed and compared byte for byte "
             "with the content model; a second session reads the file back (RETR, MLST, MLSD) right after the uploader "
             "received the completion reply; a subset runs under every schedule with <= d deviations including every "
             "re-segmentation of control and data streams. Plus: another session stats/lists or downloads the same file while the transfer is suspended half-way (slow backend, lock-step window).",
     "design_ref": "DESIGN.md §5 C01", "note": ENV_NOTE,
     "technique": "bounded-exhaustive input enumeration + deviation-bounded stateless schedule/segmentation exploration of the implementation"},
    {"property_id": "C06", "level": "model_checking",
     "text": "The real Server.write_response output for all 1000 codes x 16 line shapes (single-line), all line lists of "
             "1..3 lines over the 16-line alphabet (4-5 lines over reduced alphabets) in plain and list mode, reply pairs, "
             "latin-1, and foreign-code continuation lines is decoded by the real Client.parse_response under all single "
             "cuts, all double cuts (short streams) and byte-by-byte feeding; Code.matches is compared with the digit-for-"
             "digit definition on all 1000 codes x all 400 masks of length 0..3.",
     "design_ref": "DESIGN.md §5 C06", "note": "Trusted base: the expected-info convention (first character after the code is the separator) written from the documented behaviour of parse_response; asyncio.StreamReader.",
     "technique": "bounded-exhaustive enumeration of encoder inputs x segmentations through the real encoder and decoder"},
    {"property_id": "C20", "level": "model_checking",
     "text": "Non-interference: for 7 login-history shapes x 3 PASS spellings (+ Client.login) x every password of length "
             "1..2 (thorough 3) over 9 metacharacters plus 12 special strings, the complete formatted log stream (all "
             "loggers at DEBUG: message, args, tracebacks, extras) of a deterministic execution must equal that of a "
             "reference password of the same length class; plus a literal-substring check. Also raw-byte passwords that are invalid in the server encoding, and Client.login / Client.context with latin-1, ascii and cp1251 clients and passwords those encodings cannot represent.",
     "design_ref": "DESIGN.md §5 C20", "note": ENV_NOTE,
     "technique": "exhaustive input enumeration with a two-run non-interference comparison on a deterministic event loop"},
    {"property_id": "C08", "level": "model_checking",
     "text": "For every name of length 1..2 (thorough 3) over 13 protocol metacharacters / non-ASCII characters plus 24 "
             "fixed names, at nesting depth 1 and 2, against a server with MLSD/MLST and one with the LIST fallback: one "
             "session through the real client API (mkdir, cd+pwd, cd up, relative cd, upload, list, raw LIST, stat, "
             "exists, download, rename away/back, recursive remove) with the backend tree, PWD, listings and bytes "
             "compared after every step. Also through servers and clients configured with latin-1 and cp1251 (names those encodings can represent).",
     "design_ref": "DESIGN.md §5 C08", "note": ENV_NOTE + " One open known finding (D10, leading whitespace through the ls-format parser).",
     "technique": "bounded-exhaustive input enumeration through the real client and server on a deterministic event loop"},
    {"property_id": "C09", "level": "model_checking",
     "text": "Every source (all rooted trees with <= 4 nodes over names {a,b}: files with distinct contents incl. empty, "
             "empty directories, same names at different levels; single files) x 5 destinations x write_into x remote "
             "cwd x block size x server flavour for upload and download, plus recursive list from absolute/relative/"
             "empty paths and recursive remove: whole-tree comparison against the documented placement rule, including "
             "'nothing else changed'. Also latin-1 servers/clients with non-ASCII names.",
     "design_ref": "DESIGN.md §5 C09", "note": ENV_NOTE,
     "technique": "bounded-exhaustive input enumeration (all small trees) through the real client and server"},
    {"property_id": "C07", "level": "model_checking",
     "text": "Function plane: the real build_list_mtime and parse_ls_date composed on a grid of 'now' values at every "
             "month boundary, Feb 28/29, Mar 1, DST switch hours and mid-year of 2023-2025 (thorough -2028) x mtimes over "
             "[now-400d, now+3d] at one-minute granularity around now / now-half-year / New Year / Mar 1 and a 67-minute "
             "stride elsewhere, under TZ=UTC and a DST zone, against the local broken-down time truncated to minute or "
             "day (one-day exemption at the half-year boundary). Wire level: every entry set over 3 names x file/dir with "
             "rotating boundary sizes (0..2^40, sparse spy stat) and mtimes through MLSD, raw LIST, MLST, and stat() "
             "falling back to MLSD and to LIST.",
     "design_ref": "DESIGN.md §5 C07", "note": ENV_NOTE,
     "technique": "bounded-exhaustive grid enumeration of formatter-parser composition + exhaustive wire cases with a spy backend"},
    {"property_id": "C15", "level": "model_checking",
     "text": "API: every sequence of length <= 2 (3 for one configuration; thorough 3 everywhere) over the 36-symbol "
             "(chunk, I/O duration, idle gap) alphabet through the real ThrottleStreamIO on a virtual clock for L in "
             "{8, 1024}, reset_rate in {1, 10}, both directions; two throttles on one stream; limit None/0/opposite; "
             "limit setter and clone() at every position; two concurrent streams sharing or cloning a throttle - I/O "
             "start times compared exactly with the arithmetic reference max(request, t0 + bytes/L). End-to-end: each "
             "of the five limit levels alone and all ordered pairs x direction x (1..3 connections, 1..2 users) x sizes "
             "with the real client and server at zero latency: cumulative-rate bound at every observed I/O of the "
             "limit-sharing group, finish time within the bound from both sides, independence of unrelated groups, and "
             "no dependence on the data volume when only the opposite direction is limited. End-to-end also with connection churn (other connections of the same users log in and out between the logins of the measured ones) and with re-login from an unlimited to a limited user and back on one control connection.",
     "design_ref": "DESIGN.md §5 C15", "note": ENV_NOTE,
     "technique": "bounded-exhaustive enumeration of operation sequences in virtual time against an arithmetic reference model"},
    {"property_id": "C19", "level": "model_checking",
     "text": "Client parsers: every single mutation (delete 1..6, insert/replace with 17 bytes, truncate, swap/duplicate "
             "token) and windowed pairs of 8 unix, 3 windows, 4 MLSx lines and 11 PASV/EPSV/257 payloads: well-typed "
             "result or ValueError (an ordinary Exception for the payload parsers). Client end-to-end: the real client "
             "against a scripted raw server sending mutated greetings/replies/passive answers and listings (incl. '.' "
             "and '..', recursive): must return or raise, never hang (the server hangs up when silent) or loop, and never "
             "drop a listing line. Server: one hostile line per execution (all 256 single bytes, invalid UTF-8, lone CR/"
             "LF, lengths 2^16-2..2^16+2 and 2^17, EOF after every prefix of every verb, mutated arguments) next to a "
             "healthy session whose transcript must equal its solo run; then fresh login, ledger, server.close(). The hostile session runs in every login state (none, USER sent, logged in as a user with a connection limit) and its server-wide and per-user slots are probed after it dies; a wall-clock watchdog turns a server that spins without yielding into a violation instead of a hung check.",
     "design_ref": "DESIGN.md §5 C19", "note": ENV_NOTE,
     "technique": "bounded-exhaustive mutation-neighbourhood enumeration through the real parsers, client and server"},
]

_ALL = [f"C{i:02d}" for i in range(1, 21)]
NOT_APPLICABLE = [
    {"property_id": p, "reason": "check not registered yet (framework under construction; see DESIGN.md §5 for the plan)"}
    for p in _ALL if p not in {c["property_id"] for c in CHECKS}
]

# wave 10
_W10 = {'C03': ' Non-printable login names in the re-USER alphabet; an anonymous account that has a password.', 'C04': ' The permission table changed between two lookups (entry added, removed, replaced).', 'C05': " A TLS server's listeners (control and every passive one, with and without a port pool) all carry the context.", 'C06': ' Masks and reply lines given as sets, frozensets, generators and dict views; two-character codes against three-character masks; long verbs echoed in 502.', 'C07': ' A first listing refused for a reason other than MLSD being unknown, then further listings.', 'C08': " Client.download of '.' and of the empty path, also against a LIST-only server.", 'C09': ' A tree uploaded a second time into what the first upload left.', 'C10': ' The account table in another order (anonymous listed first) with unknown login names.', 'C11': ' Several accounts: re-login as the same, another and an unknown account with a listener open.', 'C12': ' Accounts with one connection each: sessions that end between USER and PASS, after a wrong password, after switching accounts - afterwards every account can be logged into.', 'C13': ' Failures of the operating system under the stock file-system backends: /dev/full (flush at close), /proc/self/mem (read), a directory the process may not read (effective uid switched while the command is served).', 'C14': ' A backend whose close takes longer than path_timeout and ignores it, with SYST / ABOR / PWD behind the ABOR.', 'C15': ' Streams built without a table of throttles are independent; one anonymous account used under several names shares one limit.', 'C16': ' A data peer that takes a few bytes of a blocked write and then stops; two transfers waiting for one data connection.', 'C17': ' Same-instant command pairs on a backend that suspends in every call (restart offsets travel with their own handler).', 'C18': ' Backend-API sequences over a tree with symbolic links (to a file, a directory, nothing).', 'C19': ' A work item that does not return within its wall-clock budget is a violation; data addresses that swallow the connection attempt.', 'C20': " An account appended to the user manager's list after construction; every chain of 33x replies of a foreign server through Client.login."}
for _k, _v in _W10.items():
    EXTRA[_k] = EXTRA.get(_k, "") + _v
EXTRA["C07"] += " Well-formed DOS dir lines (the parser chain's second format) over every time of day, grouped sizes and <DIR> read back exactly."
EXTRA["C14"] += " The library's own Client.abort() (waiting / not waiting) in the middle of downloads, uploads, appends and listings, after which the client is used on."
# wave 11
_W11 = {
 "C01": " A change of the working directory pipelined behind a transfer by relative name, the data connection made afterwards.",
 "C05": " Directory entries made outside FTP whose names the server encoding cannot express (stock file-system backends, utf-8 / latin-1 / ascii); CDUP after the parent was renamed away, removed or replaced.",
 "C06": " The empty mask.",
 "C09": " Local sources whose last component is a symbolic link (real file system).",
 "C12": " A data connection from another address than the control connection; the unsent tail of a finished download held by a data peer that stays connected (kernel buffer of 4 bytes), the control connection cut at every event.",
 "C13": " A plug-in that raises aioftp.PathIOError itself, without the reason triple.",
 "C16": " Thousands of pipelined commands from a peer whose receive window is closed, then silence.",
 "C19": " Transfer commands with garbage arguments while a data connection is ready (its fate in-session and after the session); listing facts are typed (decimal ASCII counts, 14-digit times).",
}
for _k, _v in _W11.items():
    EXTRA[_k] = EXTRA.get(_k, "") + _v
# wave 12
_W12 = {
 "C02": " A path segment that begins and ends with a double quote.",
 "C03": " The right password (or a known login name) followed by a character that is no blank but that str.rstrip() would take (NBSP, U+001F, U+3000).",
 "C04": " LIST with what looks like an ls switch in front of the path.",
 "C08": " Names in double quotes; a rename from inside a directory to a bare name in the working directory and back.",
 "C10": " A barrier command (CWD) that fails in the backend, at every point of the login automaton.",
 "C11": " A forced PASV response address (dotted quad, host names, empty) with a port pool.",
 "C14": " A command that ended in 451 earlier in the session.",
 "C15": " A shared level already in debt through another stream when a stream's own level does its first I/O.",
 "C17": " A backend call of one session that never returns (executor pools and their thread counts are modelled).",
 "C18": " Directories of 255 to 3000 entries at the API and behind the server.",
}
for _k, _v in _W12.items():
    EXTRA[_k] = EXTRA.get(_k, "") + _v

# wave 13
EXTRA["C06"] += " Reply lines that end in a character str.rstrip() takes although it is no blank (NBSP, U+3000, U+001F, U+0085)."
EXTRA["C09"] += " A tree with a sub-directory that cannot be listed (550): recursive list, iteration and download raise or deliver everything."
EXTRA["C12"] += " Another data connection made while the tail of the last transfer is unsent."
EXTRA["C16"] += " Idle drop of a session (no socket_timeout) whose finished download still has an unsent tail, with and without further data connections."
