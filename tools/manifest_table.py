FIX_COMMITS = ["d6ae502 (passive start-up cancellation: port/listener leak)",
               "40b0ee0 (data connection not closed when open() fails or is cancelled)"]

ENV_NOTE = ("Trusted base: the environment model (vf/simloop.py: selector, TCP, clock, executor) and the harness-side "
            "oracles; the code explored is the unmodified aioftp imported from /repo/src. Bounds are stated in the "
            "evidence file (bounds, caps_hit, exhaustive).")

CHECKS = [
    {"property_id": "C11", "level": "model_checking",
     "text": "Exhaustive enumeration, on the real aioftp.Server running on a deterministic event loop, of (a) every "
             "PASV/EPSV/data/LIST/QUIT/drop sequence over 2-3 sessions to a depth, (b) every schedule with <= d "
             "deviations of the listener start-up races, (c) every bind-fault plan; pool conservation checked at every "
             "quiescent point plus a black-box probe at the end.",
     "design_ref": "DESIGN.md §5 C11", "note": ENV_NOTE,
     "technique": "explicit-state enumeration of event histories + deviation-bounded stateless schedule exploration of the implementation"},
    {"property_id": "C12", "level": "fault_enumeration",
     "text": "Every script of a corpus covering all verbs and transfer kinds is cut (peer FIN, peer RST, server.close()) "
             "after every delivered network event, on an in-memory, a slow and an executor-based backend with a "
             "lock-step send window, under every schedule with <= 1 deviation after the cut, with 1 and 2 sessions; "
             "after the cut the clock is frozen and the SimNet ledger (sockets, listeners), the spy backend (file "
             "handles), asyncio.all_tasks and the connection table are audited; then server.close() must complete.",
     "design_ref": "DESIGN.md §5 C12", "note": ENV_NOTE,
     "technique": "exhaustive fault-point enumeration x deviation-bounded stateless schedule exploration of the implementation"},
]

_ALL = [f"C{i:02d}" for i in range(1, 21)]
NOT_APPLICABLE = [
    {"property_id": p, "reason": "check not registered yet (framework under construction; see DESIGN.md §5 for the plan)"}
    for p in _ALL if p not in {c["property_id"] for c in CHECKS}
]
