#!/bin/bash
# Re-run the quick check of every seeded change kept under /verif/seeded against the current /repo:
# applies patch.diff (or patch_rebased.diff when the tree has moved on), runs the property's check, restores /repo.
cd /verif
for d in seeded/*/; do
  name=$(basename $d); pid=$(python3 -c "import json;print(json.load(open('$d/meta.json'))['property'])")
  apply="$d/patch.diff"
  if ! git -C /repo apply --check "$(realpath $apply)" 2>/dev/null; then
    if [ -s "$d/patch_rebased.diff" ] && git -C /repo apply --check "$(realpath $d/patch_rebased.diff)" 2>/dev/null; then apply="$d/patch_rebased.diff"; else echo "$name $pid PATCH-DOES-NOT-APPLY"; continue; fi
  fi
  res=$(tools/try_patch.sh "$apply" $pid 2>&1 | head -1)
  echo "$name $(basename $apply) -> $res"
done
git -C /repo status --short | head -3
