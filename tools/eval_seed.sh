#!/bin/bash
# usage: tools/eval_seed.sh <PID> [<seed-dir-name>]  -- confirm a seeded change (tests still pass, demo fails with / passes
# without it) in its scratch worktree, run the property's quick check against it in /repo, record under /verif/seeded/
pid="$1"; name="${2:-$1}"; wt=/tmp/seed/$name; out=/tmp/seed/out/$name
[ -s "$out/patch.diff" ] || { echo "$name: no patch"; exit 9; }
cd "$wt" || exit 9
git checkout -q -- .
wtpatch="$out/patch.diff"
if ! git apply --check "$wtpatch" 2>/dev/null && [ -s "$out/patch_rebased.diff" ]; then wtpatch="$out/patch_rebased.diff"; fi
git apply "$wtpatch" || { echo "$name: patch does not apply in worktree"; exit 9; }
tests=$(PYTHONPATH=$wt/src /venv/bin/python -m pytest -q -p no:cacheprovider --timeout=900 -o addopts="" 2>&1 | tail -1)
PYTHONPATH=$wt/src timeout 120 /venv/bin/python "$out/demo.py" >/dev/null 2>&1; demo_with=$?
git checkout -q -- .
PYTHONPATH=$wt/src timeout 120 /venv/bin/python "$out/demo.py" >/dev/null 2>&1; demo_without=$?
git apply "$wtpatch"
echo "$name: tests='$tests' demo_with=$demo_with demo_without=$demo_without"
cd /verif
mkdir -p seeded/$name
[ -s "$out/patch_rebased.diff" ] && cp "$out/patch_rebased.diff" seeded/$name/patch_rebased.diff
apply="$out/patch.diff"
# the tree has moved on (fix commits touching the same lines): use the hand-rebased equivalent if there is one
if ! git -C /repo apply --check "$apply" 2>/dev/null && [ -s "seeded/$name/patch_rebased.diff" ]; then apply="seeded/$name/patch_rebased.diff"; fi
basename "$apply" > /tmp/.eval_applied
res=$(SHOW=2 tools/try_patch.sh "$apply" $pid 2>&1)
echo "$res" | head -4 | cut -c1-300
mkdir -p seeded/$name
cp "$out/patch.diff" seeded/$name/patch.diff; cp "$out/demo.py" seeded/$name/demo.py; cp "$out/notes.md" seeded/$name/notes.md 2>/dev/null
rc=$(echo "$res" | head -1 | sed -n 's/.*rc=\([0-9]*\).*/\1/p')
python3 - "$pid" "$name" "$tests" "$demo_with" "$demo_without" "$rc" <<'PY'
import json, sys
pid, name, tests, dw, dwo, rc = sys.argv[1:7]
notes = open(f'/verif/seeded/{name}/notes.md').read() if __import__('os').path.exists(f'/verif/seeded/{name}/notes.md') else ''
meta = {"property": pid, "seed": name, "source": "independent sub-agent given only the property text and a scratch worktree",
        "needs_to_manifest": notes[:1500],
        "confirmed": {"repo_test_suite_with_change": tests, "demo_exit_with_change": int(dw), "demo_exit_without_change": int(dwo)},
        "applied_patch": open('/tmp/.eval_applied').read().strip() if __import__('os').path.exists('/tmp/.eval_applied') else 'patch.diff', "ran": f"tools/eval_seed.sh {pid} {name}  (applies patch.diff to /repo, runs check.py {pid} --tier quick, restores /repo)",
        "quick_check_exit_code": int(rc) if rc else None, "detected_by_quick_check": rc == "1"}
json.dump(meta, open(f'/verif/seeded/{name}/meta.json', 'w'), indent=1)
PY
