#!/bin/bash
# run every registered quick (or $1=thorough) check sequentially; print one line per check
tier=${1:-quick}
cd "$(dirname "$0")/.."
for i in $(seq -w 1 20); do
  s=$(date +%s)
  out=$(PYTHONHASHSEED=0 /venv/bin/python check.py C$i --tier $tier 2>&1); rc=$?
  e=$(date +%s)
  echo "C$i rc=$rc $((e-s))s $(echo "$out" | tail -1 | cut -c1-160)"
  if [ $rc -ne 0 ]; then echo "$out" | grep -E "^(VIOLATION|INFRA|  sig)" | head -4 | cut -c1-300; fi
done
exit 0
