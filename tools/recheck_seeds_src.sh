#!/bin/bash
# Re-run the quick check of every seeded change under /verif/seeded and of every own mutant under /verif/mutants against
# a scratch copy of /repo's sources with the patch applied (never touches /repo or /verif/evidence).
# usage: tools/recheck_seeds_src.sh [name-filter-regex]
cd "$(dirname "$0")/.."
work=$(mktemp -d /tmp/verif-recheck.XXXXXX)
trap 'rm -rf "$work"' EXIT
filter="${1:-.}"
run_one() {  # name pid patch
  rm -rf "$work/t"; mkdir -p "$work/t"; cp -r /repo/src "$work/t/src"
  ( cd "$work/t" && git apply "$3" 2>/dev/null ) || return 9
  out=$(VERIF_OUT_DIR="$work/out" VERIF_AIOFTP_SRC="$work/t/src" VERIF_SKIP_CONFORMANCE=1 PYTHONHASHSEED=0 /venv/bin/python check.py "$2" --tier quick 2>&1); rc=$?
  echo "$1 $(basename "$3") -> $2 rc=$rc $(echo "$out" | grep -c '^VIOLATION') violation line(s)"
  return 0
}
for d in seeded/*/; do
  name=$(basename "$d"); echo "$name" | grep -Eq "$filter" || continue
  pid=$(python3 -c "import json;print(json.load(open('$d/meta.json'))['property'])")
  run_one "$name" "$pid" "$(realpath "$d/patch.diff")" || { [ -s "$d/patch_rebased.diff" ] && run_one "$name" "$pid" "$(realpath "$d/patch_rebased.diff")"; } || echo "$name $pid PATCH-DOES-NOT-APPLY"
done
for m in mutants/*.diff; do
  name=$(basename "$m" .diff); echo "$name" | grep -Eq "$filter" || continue
  pid=$(echo "$name" | sed -n 's/^c\([0-9][0-9]\)_.*/C\1/p'); [ -n "$pid" ] || continue
  run_one "$name" "$pid" "$(realpath "$m")" || echo "$name $pid PATCH-DOES-NOT-APPLY"
done
