#!/venv/bin/python
"""Regenerate MANIFEST.json from the table below (kept in one place so it is always valid)."""
import json, pathlib, sys
ROOT = pathlib.Path(__file__).resolve().parent.parent
sys.path.insert(0, str(ROOT))
from tools.manifest_table import CHECKS, NOT_APPLICABLE, FIX_COMMITS, EXTRA  # noqa

def cmd(pid, tier):
    return f"cd /verif && PYTHONHASHSEED=0 /venv/bin/python check.py {pid} --tier {tier}"

m = {
    "version": 1,
    "setup_cmd": "cd /verif && /venv/bin/python -m compileall -q vf checks check.py",
    "hooks": {
        "guard": "AIOFTP_VERIF",
        "enable": "none needed: all observations are made at the environment boundary (simulated event loop and network, "
                  "spy backends, log handler) by run-time patching from the harness; /repo carries no hook code",
        "baseline_off_cmd": "cd /repo && /venv/bin/python -m pytest -ra -q -p no:cacheprovider --timeout=900 "
                            "--continue-on-collection-errors",
        "source_commits": [],
        "add_only": True,
    },
    "engines": [
        {"name": "simloop", "path": "vf/simloop.py", "serves_properties": sorted(c["property_id"] for c in CHECKS),
         "kind_free_text": "hand-written deterministic asyncio event loop + in-memory TCP; stateless deviation-bounded "
                           "explorer (vf/explore.py), explicit-state BFS over command histories, bounded-exhaustive "
                           "enumeration; the explored transition function is the real aioftp code"},
    ],
    "checks": [],
    "notes": "Repairs of genuine defects are unguarded 'fix:' commits in /repo: " + ", ".join(FIX_COMMITS) +
             ". Known findings: /verif/known_findings.json. See DESIGN.md.",
    "not_applicable": NOT_APPLICABLE,
}
for c in CHECKS:
    pid = c["property_id"]
    m["checks"].append({
        "property_id": pid,
        "quick_cmd": cmd(pid, "quick"),
        "thorough_cmd": cmd(pid, "thorough"),
        "evidence_file": f"/verif/evidence/{pid}.json",
        "replay_cmd_template": f"cd /verif && PYTHONHASHSEED=0 /venv/bin/python check.py {pid} --replay {{path}}",
        "engine": "simloop",
        "level_claimed": {"category": c["level"], "text": c["text"] + EXTRA.get(pid, ""), "design_ref": c["design_ref"]},
        "level_note": c["note"],
        "technique": c["technique"],
    })
(ROOT / "MANIFEST.json").write_text(json.dumps(m, indent=1) + "\n")
print("wrote MANIFEST.json with", len(m["checks"]), "checks,", len(NOT_APPLICABLE), "not_applicable")
