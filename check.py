#!/venv/bin/python
"""CLI: check.py <id> [--tier quick|thorough] [--replay file]

exit 0 = property held on everything explored (KNOWN-FINDING lines allowed)
exit 1 = VIOLATION property=<id> replay=<path>
exit 2 = infrastructure error (sim/real conformance, determinism, replay divergence)
"""
import argparse
import importlib
import logging
import os
import sys
import time

HERE = os.path.dirname(os.path.abspath(__file__))
sys.path.insert(0, HERE)
SRC = os.environ.get("VERIF_AIOFTP_SRC", "/repo/src")
sys.path.insert(0, SRC)


def main():
    ap = argparse.ArgumentParser()
    ap.add_argument("pid")
    ap.add_argument("--tier", default=os.environ.get("VERIF_TIER", "quick"), choices=["quick", "thorough"])
    ap.add_argument("--replay")
    ap.add_argument("--verbose", action="store_true")
    args = ap.parse_args()
    seed = int(os.environ.get("VERIF_SEED", "0") or 0)
    if not args.verbose:
        logging.disable(logging.CRITICAL)
    import aioftp
    got = os.path.realpath(os.path.dirname(aioftp.__file__))
    want = os.path.realpath(os.path.join(SRC, "aioftp"))
    if got != want:
        print(f"INFRASTRUCTURE-ERROR aioftp imported from {got}, expected {want}")
        return 2
    mod = importlib.import_module("checks." + args.pid.lower())
    if args.replay:
        return mod.replay(args.replay)
    t0 = time.time()
    try:
        return mod.run(args.tier, seed, t0)
    except Exception as exc:  # never let a harness crash look like a verdict
        import traceback
        traceback.print_exc()
        print(f"INFRASTRUCTURE-ERROR property={args.pid} {type(exc).__name__}: {exc}")
        return 2


if __name__ == "__main__":
    sys.exit(main())
