"""E1: stateless deviation-bounded exploration (iterative context bounding on an
event loop).  DESIGN.md §3.1"""
from .simloop import Chooser


def explore(run_fn, bound, kinds=None, max_exec=None):
    """Run ``run_fn(chooser)`` for every choice vector with at most ``bound``
    non-canonical choices, level by level (0 deviations first).  Yields
    (chooser, result).  ``result`` is whatever run_fn returns.

    If max_exec is hit the generator stops and sets explore.capped (attribute of
    the returned generator's frame is awkward, so a sentinel tuple is yielded:
    (None, "capped")).
    """
    level = [[]]
    n = 0
    for depth in range(bound + 1):
        nxt = []
        for prefix in level:
            if max_exec is not None and n >= max_exec:
                yield None, "capped"
                return
            ch = Chooser(prefix, kinds)
            res = run_fn(ch)
            n += 1
            yield ch, res
            if depth < bound:
                pts = ch.points
                choices = ch.choices
                for i in range(len(prefix), len(pts)):
                    for alt in range(1, pts[i][1]):
                        nxt.append(choices[:i] + [alt])
        level = nxt
        if not level:
            break


def count_points(ch):
    return len(ch.points), sum(p[1] - 1 for p in ch.points)
