"""Sequential reference model of an aioftp session (DESIGN.md §4.1).

Written from the property statements / RFC 959 as implemented by aioftp; plain
Python, no asyncio.  ``step`` returns an ``Expect`` describing the acceptable
observations and mutates the model to the successor state.
"""
import copy
import posixpath
import sys


TRANSFER_UP = ("STOR", "APPE")
TRANSFER_DOWN = ("RETR", "LIST", "MLSD")


def resolve(cwd, arg):
    """independent path resolver: split on '/', fold '..' (no-op at the root), drop '.' and ''"""
    s = arg if arg.startswith("/") else cwd.rstrip("/") + "/" + arg
    stack = []
    for part in s.split("/"):
        if part in ("", "."):
            continue
        if part == "..":
            if stack:
                stack.pop()
            continue
        stack.append(part)
    return "/" + "/".join(stack)


def parent(p):
    return posixpath.dirname(p) or "/"


def matches(code, pattern):
    return any(len(code) == 3 and all(m in "xX" or m == c for m, c in zip(alt, code)) for alt in pattern.split("|"))


class Expect:
    """replies: list of code patterns ('150', '5xx', '4xx|5xx'); data: bytes | set of names | None;
    closed: whether the server ends the session; alts: alternative (Expect, successor model) pairs"""

    def __init__(self, replies, data=None, closed=False, names=None, note=""):
        self.replies = replies
        self.data = data
        self.names = names
        self.closed = closed
        self.note = note


class UserSpec:
    def __init__(self, login, password=None, home="/", perms=None, maxconn=None):
        self.login, self.password, self.home = login, password, home
        self.maxconn = maxconn          # a single session never exhausts it: the model ignores it
        self.perms = perms or []      # list of (path, readable, writable)

    def perm(self, path):
        best, depth = (True, True), -1
        for p, r, w in self.perms:
            if path == p or p == "/" or path.startswith(p.rstrip("/") + "/"):
                d = 0 if p == "/" else p.count("/")
                if d > depth:
                    best, depth = (r, w), d
        return best


# the supported command set (25 verbs): everything else is an unsupported verb - also what a later version of the
# server may have added to its table
KNOWN_VERBS = ("abor", "appe", "cdup", "cwd", "dele", "epsv", "list", "mkd", "mlsd", "mlst", "pass",
               "pasv", "pbsz", "prot", "pwd", "quit", "rest", "retr", "rmd", "rnfr", "rnto", "stor",
               "syst", "type", "user")


class SessionModel:
    def __init__(self, users, tree, block=None):
        self.users = {u.login: u for u in users}
        self.tree = dict(tree)           # abs path -> None (dir) | bytes
        self.user = None
        self.logged = False
        self.cwd = "/"
        self.rename_from = None
        self.rest = 0
        self.rest_unknown = False        # after an unknown verb the pending offset is "either"
        self.passive = False
        self.data = False
        self.ttype = "I"
        self.closed = False
        self.others = {}                 # login -> connections of that user held by *other* sessions

    # -- helpers -----------------------------------------------------------
    def key(self):
        return (self.user.login if self.user else None, self.logged, self.cwd, self.rename_from, self.rest,
                self.passive, self.data, self.closed, tuple(sorted(self.tree.items(), key=lambda kv: kv[0])))

    def clone(self):
        m = copy.copy(self)
        m.tree = dict(self.tree)
        return m

    def exists(self, p):
        return p == "/" or p in self.tree

    def is_dir(self, p):
        return p == "/" or (p in self.tree and self.tree[p] is None)

    def is_file(self, p):
        return p in self.tree and self.tree[p] is not None

    def children(self, p):
        pre = p.rstrip("/") + "/"
        return [k for k in self.tree if k.startswith(pre) and "/" not in k[len(pre):]]

    def through_file(self, p):
        """some proper ancestor of p is a file or missing-under-file"""
        q = parent(p)
        while q != "/":
            if self.is_file(q):
                return True
            q = parent(q)
        return False

    def lookup_user(self, login):
        if login in self.users:
            return self.users[login]
        return self.users.get(None)

    # -- the step function ---------------------------------------------------
    def step(self, line, payload=b""):
        """line: command line without CRLF.  data_action: for transfer verbs whether a data connection exists
        is tracked by the model itself ('@data' is a separate step)."""
        if line == "@data":
            if self.passive:
                if not self.data:
                    self.data = True
                # a second connection while one is unused is closed by the server; state unchanged
            return Expect([])
        s = line.rstrip(" \t\r\n")          # the line end and blanks before it - nothing else
        cmd, _, arg = s.partition(" ")
        # (only the 26 ascii letters have a second spelling: a verb with the kelvin sign in it is another verb)
        verb = cmd.lower() if cmd.isascii() else cmd
        known = verb in KNOWN_VERBS
        if not known:
            # the restart offset applies to the immediately following command only - whatever that command is
            self.rest, self.rest_unknown = 0, False
            return Expect(["502"])
        if verb not in ("retr", "stor", "appe", "rest"):
            self.rest, self.rest_unknown = 0, False
        if verb in ("stor", "appe"):
            return self._upload(arg, verb == "appe", payload)
        h = getattr(self, "do_" + verb)
        return h(arg)

    def _login(self):
        return None if self.logged else Expect(["503"])

    def do_user(self, arg):
        u = self.lookup_user(arg)
        self.user, self.logged = None, False
        self.rename_from = None          # a pending rename belongs to the login that issued it
        if u is None:
            return Expect(["530"])
        if u.maxconn is not None and self.others.get(u.login, 0) >= u.maxconn:
            return Expect(["530"])       # refused: no slot left, and the session is attached to nobody
        self.user = u
        self.cwd = u.home
        if u.password is None:
            self.logged = True
            return Expect(["230"])
        return Expect(["331"])

    def do_pass(self, arg):
        if self.user is None:
            return Expect(["503"])
        if self.logged:
            return Expect(["503"])
        if self.user.password == arg:
            self.logged = True
            return Expect(["230"])
        return Expect(["530"])

    def do_quit(self, arg):
        self.closed = True
        return Expect(["221"], closed=True)

    def do_syst(self, arg):
        return Expect(["215"])

    def do_pwd(self, arg):
        return self._login() or Expect(["257"], note="pwd:" + self.cwd)

    def do_type(self, arg):
        if not self.logged:
            return Expect(["503"])
        if arg in ("I", "A"):
            self.ttype = arg
            return Expect(["200"])
        return Expect(["5xx"])

    def do_pbsz(self, arg):
        return self._login() or Expect(["200"])

    def do_prot(self, arg):
        if not self.logged:
            return Expect(["503"])
        return Expect(["200"]) if arg == "P" else Expect(["5xx"])

    def do_rest(self, arg):
        ok = arg.isascii() and arg.isdigit()
        if not ok and arg.isdecimal():
            # non-ASCII decimal digits: a server may read them as a number or call them malformed
            e = Expect(["350|5xx"])
            val = int(arg)

            def apply(codes, m=self):
                m.rest, m.rest_unknown = (val if codes and codes[-1] == "350" else 0), False
            e.apply = apply
            return e
        if ok and len(arg) > 4000:
            # more digits than any offset can have (and than the interpreter converts): malformed - but answered
            self.rest, self.rest_unknown = 0, False
            return Expect(["5xx"] if self.logged else ["5xx|503|530"])
        if ok:
            self.rest, self.rest_unknown = int(arg), False
            # REST is accepted before login too (it touches nothing); either answer is fine then
            return Expect(["350"] if self.logged else ["350|503|530"])
        self.rest, self.rest_unknown = 0, False
        return Expect(["5xx"])

    def do_abor(self, arg):
        return self._login() or Expect(["226"])

    def do_pasv(self, arg):
        if not self.logged:
            return Expect(["503"])
        self.passive, self.data = True, False
        return Expect(["227"])

    def do_epsv(self, arg):
        if not self.logged:
            return Expect(["503"])
        if arg:
            return Expect(["5xx"])
        self.passive, self.data = True, False
        return Expect(["229"])

    def _path(self, arg, need):
        """common precondition chain: login -> path conditions -> permission.  need: list of
        ('exists'|'missing'|'dir'|'file'), perm 'r'|'w'.  Returns (resolved, Expect|None)"""
        p = resolve(self.cwd, arg)
        return p

    def do_cwd(self, arg):
        if not self.logged:
            return Expect(["503"])
        p = resolve(self.cwd, arg)
        if not self.exists(p) or not self.is_dir(p) or not self.user.perm(p)[0]:
            return Expect(["550"])
        self.cwd = p
        return Expect(["250"])

    def do_cdup(self, arg):
        if not self.logged:
            return Expect(["503"])
        return self.do_cwd(parent(self.cwd))

    def do_mkd(self, arg):
        if not self.logged:
            return Expect(["503"])
        p = resolve(self.cwd, arg)
        if self.exists(p) or not self.user.perm(p)[1]:
            return Expect(["550"])
        if self.through_file(p):
            return Expect(["4xx|5xx"])
        q = p
        todo = []
        while q != "/" and not self.exists(q):
            todo.append(q)
            q = parent(q)
        for d in todo:
            self.tree[d] = None
        return Expect(["257"])

    def do_rmd(self, arg):
        if not self.logged:
            return Expect(["503"])
        p = resolve(self.cwd, arg)
        if not self.exists(p) or not self.is_dir(p) or not self.user.perm(p)[1]:
            return Expect(["550"])
        if self.children(p) or p == "/":
            return Expect(["4xx|5xx"])
        del self.tree[p]
        return Expect(["250"])

    def do_dele(self, arg):
        if not self.logged:
            return Expect(["503"])
        p = resolve(self.cwd, arg)
        if not self.exists(p) or not self.is_file(p) or not self.user.perm(p)[1]:
            return Expect(["550"])
        del self.tree[p]
        return Expect(["250"])

    def do_mlst(self, arg):
        if not self.logged:
            return Expect(["503"])
        p = resolve(self.cwd, arg)
        if not self.exists(p) or not self.user.perm(p)[0]:
            return Expect(["550"])
        return Expect(["250"], note="mlst:" + p)

    def do_rnfr(self, arg):
        if not self.logged:
            return Expect(["503"])
        p = resolve(self.cwd, arg)
        if not self.exists(p) or not self.user.perm(p)[1]:
            return Expect(["550"])
        self.rename_from = p
        return Expect(["350"])

    def do_rnto(self, arg):
        if not self.logged:
            return Expect(["503"])
        if self.rename_from is None:
            return Expect(["503"])
        p = resolve(self.cwd, arg)
        if self.exists(p) or not self.user.perm(p)[1]:
            return Expect(["550"])
        src = self.rename_from
        self.rename_from = None
        if not self.exists(src):
            return Expect(["4xx|5xx"])
        if not self.is_dir(parent(p)) or self.through_file(p) or p == src or p.startswith(src + "/") or src == "/":
            return Expect(["4xx|5xx"])
        moved = {}
        for k in list(self.tree):
            if k == src or k.startswith(src + "/"):
                moved[p + k[len(src):]] = self.tree.pop(k)
        self.tree.update(moved)
        if self.cwd == src or self.cwd.startswith(src + "/"):
            pass  # the working directory keeps its (now dangling) name
        return Expect(["250"])

    def _listing(self, verb, arg, done):
        if not self.logged or not self.passive:
            return Expect(["503"])
        p = resolve(self.cwd, arg)
        if not self.exists(p) or not self.user.perm(p)[0]:
            return Expect(["550"])
        if not self.data:
            return Expect(["150", "425"])
        self.data = False
        names = {posixpath.basename(c) for c in self.children(p)} if self.is_dir(p) else set()
        e = Expect(["150", done], names=names)
        e.list_path = p
        return e

    def do_list(self, arg):
        return self._listing("list", arg, "226")

    def do_mlsd(self, arg):
        return self._listing("mlsd", arg, "2xx")

    def _take_rest(self, started):
        """offsets that may apply to this transfer.  The offset applies to the immediately following transfer
        command only - whatever its outcome (refused, 425 or run), it is gone afterwards.  Only after an unknown
        verb is a pending offset undetermined ("either")."""
        cands = [self.rest] + ([0] if self.rest_unknown and self.rest else [])
        self.rest, self.rest_unknown = 0, False
        return cands

    def do_retr(self, arg):
        if not self.logged or not self.passive:
            self._take_rest(False)
            return Expect(["503"])
        p = resolve(self.cwd, arg)
        if not self.exists(p) or not self.is_file(p) or not self.user.perm(p)[0]:
            self._take_rest(False)
            return Expect(["550"])
        if not self.data:
            self._take_rest(False)
            return Expect(["150", "425"])
        self.data = False
        content = self.tree[p]
        e = Expect(["150", "226"])
        e.data_alts = [content[r:] for r in self._take_rest(True)]
        return e

    def _upload(self, arg, append, payload):
        if not self.logged or not self.passive:
            self._take_rest(False)
            return Expect(["503"])
        p = resolve(self.cwd, arg)
        if not self.user.perm(p)[1] or not self.is_dir(parent(p)):
            self._take_rest(False)
            return Expect(["550"])
        if not self.data:
            self._take_rest(False)
            return Expect(["150", "425"])
        self.data = False
        if self.is_dir(p):
            self._take_rest(True)
            return Expect(["150", "4xx|5xx"], note="upload-onto-dir")
        old = self.tree.get(p)
        cands = []
        fail_ok = False
        for rest in self._take_rest(True):
            if rest:
                if old is None:
                    # restart offset into a file that does not exist: backends must agree (C18); a failure is
                    # fine, and so is a zero-filled gap followed by the data
                    fail_ok = True
                    cands.append(b"\0" * rest + payload)
                    continue
                cands.append(old[:rest].ljust(rest, b"\0") + payload + old[rest + len(payload):] if payload else old)
            elif append:
                cands.append((old or b"") + payload)
            else:
                cands.append(payload)
        e = Expect(["150", "226|4xx|5xx" if fail_ok else "226"], note="upload:" + p)
        e.upload_path = p
        e.tree_alts = cands
        e.fail_ok = fail_ok
        return e
