"""Evidence, known findings, replay artefacts, process-parallel map."""
import collections
import hashlib
import json
import multiprocessing
import os
import pathlib
import sys
import time

ROOT = pathlib.Path(__file__).resolve().parent.parent
# VERIF_OUT_DIR: trial runs against deliberately broken sources (tools/try_patch.sh, eval_seed*.sh) write their evidence
# and replay files elsewhere, so that /verif/evidence always describes a run against /repo itself
_OUT = pathlib.Path(os.environ["VERIF_OUT_DIR"]) if os.environ.get("VERIF_OUT_DIR") else ROOT
EVIDENCE_DIR = _OUT / "evidence"
REPLAY_DIR = _OUT / "replays"
FINDINGS_FILE = ROOT / "known_findings.json"


def fp(obj):
    """stable fingerprint of a JSON-able object"""
    return hashlib.blake2b(json.dumps(obj, sort_keys=True, default=repr).encode(), digest_size=8).hexdigest()


class Partial:
    """picklable accumulator, merged across worker processes"""

    def __init__(self):
        self.evaluations = 0
        self.transitions = 0
        self.states = set()
        self.nontrivial = set()
        self.outcomes = collections.Counter()
        self.samples = []
        self.violations = []
        self.caps = []
        self.counters = collections.Counter()
        self.traces = 0
        self.infra = []

    def merge(self, o):
        self.evaluations += o.evaluations
        self.transitions += o.transitions
        self.states |= o.states
        self.nontrivial |= o.nontrivial
        self.outcomes.update(o.outcomes)
        for s in o.samples:
            if len(self.samples) < 6:
                self.samples.append(s)
        self.violations.extend(o.violations)
        self.caps.extend(o.caps)
        self.counters.update(o.counters)
        self.traces += o.traces
        self.infra.extend(o.infra)
        return self

    def sample(self, s, limit=3):
        if len(self.samples) < limit:
            self.samples.append(s)

    def violation(self, sig, detail, replay=None):
        """sig: small dict naming the failing input/site/history class (matched
        against known findings); detail: what was observed vs expected."""
        if len(self.violations) < 400:
            self.violations.append({"sig": sig, "detail": detail, "replay": replay})
        self.counters["violations_total"] += 1


def load_findings(pid):
    if not FINDINGS_FILE.exists():
        return []
    data = json.loads(FINDINGS_FILE.read_text())
    return [e for e in data.get("findings", []) if e.get("property") == pid]


def _matches(entry, sig):
    m = entry.get("match", {})
    return all(sig.get(k) == v for k, v in m.items())


def finish(pid, tier, seed, level, part, t0, rule, bounds, assumptions, exhaustive=True, extra=None, conform=True):
    """write evidence, print KNOWN-FINDING / VIOLATION lines, return exit code"""
    EVIDENCE_DIR.mkdir(parents=True, exist_ok=True)
    if conform and os.environ.get("VERIF_SKIP_CONFORMANCE") != "1":
        # binding of the environment model to real asyncio (DESIGN.md §2.6), counted in traces_validated_against_impl
        from . import conformance
        conformance.preflight(part)
        assumptions = list(assumptions) + [
            "SimLoop/SimNet validated on this run against the real selector loop: %d differential transcripts / "
            "profiles agreed, %d skipped" % (part.counters.get("conformance_traces", 0),
                                            part.counters.get("conformance_skipped", 0))]
    if part.infra:
        for m in part.infra[:5]:
            print(f"INFRASTRUCTURE-ERROR property={pid} {m}")
        return 2
    findings = load_findings(pid)
    open_entries = [e for e in findings if e.get("status") == "open"]
    known_hit = collections.OrderedDict()
    fresh = collections.OrderedDict()
    for v in part.violations:
        hit = None
        for e in open_entries:
            if _matches(e, v["sig"]):
                hit = e
                break
        if hit is not None:
            known_hit.setdefault(hit["id"], (hit, v))
        else:
            fresh.setdefault(fp(v["sig"]), v)
    for hid, (e, v) in known_hit.items():
        print(f"KNOWN-FINDING: property={pid} {e['id']} {e['what']}")
    rc = 0
    conf_infra = getattr(part, "conf_infra", [])
    if conf_infra and not fresh:
        # the environment model disagrees with real asyncio and nothing else was found: not a verdict on aioftp
        for m in conf_infra[:5]:
            print(f"INFRASTRUCTURE-ERROR property={pid} {m}")
        return 2
    replay_paths = []
    if fresh:
        REPLAY_DIR.mkdir(parents=True, exist_ok=True)
        for n, (k, v) in enumerate(fresh.items()):
            if n >= 8:
                break
            path = REPLAY_DIR / f"{pid}-{k}.json"
            path.write_text(json.dumps({"property": pid, "tier": tier, **v}, indent=1, default=repr))
            replay_paths.append(str(path))
            print(f"VIOLATION property={pid} replay={path}")
            d = json.dumps(v["detail"], default=repr)
            print(f"  sig={json.dumps(v['sig'], default=repr)} detail={d[:600]}")
        rc = 1
    cov = {
        "states": max(1, len(part.states)),
        "transitions": max(1, part.transitions),
        "traces_validated_against_impl": part.traces,
        "samples": part.samples[:6] or ["<none>"],
        "evaluations": part.evaluations,
        "distinct_nontrivial": len(part.nontrivial),
        "rule": rule,
        "bounds": bounds,
        "distinct_outcomes": len(part.outcomes),
        "outcomes_top": [[k, c] for k, c in part.outcomes.most_common(12)],
        "caps_hit": part.caps[:10],
        "exhaustive": bool(exhaustive and not part.caps),
        "known_findings_matched": list(known_hit),
        "counters": dict(part.counters),
    }
    if extra:
        cov.update(extra)
    ev = {
        "property_id": pid,
        "tier": tier,
        "seed": seed,
        "level": level,
        "coverage": cov,
        "assumptions": assumptions,
        "wall_s": round(time.time() - t0, 2),
        "violations": len(fresh),
    }
    (EVIDENCE_DIR / f"{pid}.json").write_text(json.dumps(ev, indent=1, default=repr))
    print(f"{pid} {tier}: evaluations={part.evaluations} states={len(part.states)} transitions={part.transitions} "
          f"nontrivial={len(part.nontrivial)} outcomes={len(part.outcomes)} caps={len(part.caps)} "
          f"known={len(known_hit)} violations={len(fresh)} wall={ev['wall_s']}s")
    return rc


# --------------------------------------------------------------------------

def _call(args):
    fn, item = args
    return fn(item)


class ItemTimeout(BaseException):
    pass


def pmap(fn, items, workers=None, budget=None, on_timeout=None):
    """process-parallel map of a module-level function; results in input order.
    budget: wall-clock seconds one item may take (a synchronous endless loop in the code under test never gets back
    to the simulated event loop, so only a signal can end it); on_timeout(item) supplies the result for such an item,
    without it the check ends with a harness error"""
    items = list(items)
    workers = workers or int(os.environ.get("VERIF_WORKERS", "0")) or min(16, os.cpu_count() or 1)
    if budget is None:
        # no work item of any check needs anything near this: a check must end, also when the code under test spins
        budget = float(os.environ.get("VERIF_ITEM_BUDGET", "1800"))
    if len(items) == 0:
        return []
    ctx = multiprocessing.get_context("fork")
    chunk = max(1, len(items) // (workers * 8))
    # a worker that dies (or lets a BaseException such as the wall-clock watchdog's escape) must end the check with a
    # harness error, never leave it waiting for ever: ProcessPoolExecutor notices dead workers, _guarded catches the rest
    import concurrent.futures
    import functools
    with concurrent.futures.ProcessPoolExecutor(workers, mp_context=ctx) as pool:
        out = list(pool.map(functools.partial(_guarded, fn, budget), items, chunksize=chunk))
    res = []
    for (tag, val), item in zip(out, items):
        if tag == "timeout" and on_timeout is not None:
            res.append(on_timeout(item))
        elif tag != "ok":
            raise RuntimeError("worker failed: " + str(val))
        else:
            res.append(val)
    return res


def _guarded(fn, budget, item):
    import signal

    def alarm(signum, frame):
        raise ItemTimeout()
    try:
        if budget:
            signal.signal(signal.SIGALRM, alarm)
            signal.setitimer(signal.ITIMER_REAL, budget)
        try:
            return "ok", fn(item)
        finally:
            if budget:
                signal.setitimer(signal.ITIMER_REAL, 0)
    except ItemTimeout:
        return "timeout", f"no result within {budget} s of wall clock"
    except BaseException as exc:       # noqa - incl. KeyboardInterrupt subclasses raised by watchdogs
        import traceback
        return "error", "".join(traceback.format_exception(type(exc), exc, exc.__traceback__))[-2000:]


def merge_all(parts):
    tot = Partial()
    for p in parts:
        tot.merge(p)
    return tot
