"""Deterministic asyncio event loop + in-memory TCP ("SimLoop" / "SimNet").

Only the *environment* is modelled here: the selector, TCP, the wall clock and
the thread pool.  Tasks, futures, queues, timeouts, streams are stock asyncio.

Every place where the real world could have answered differently is a numbered
choice point (see ``Chooser``); choice 0 is the canonical answer.  DESIGN.md §2.
"""
import asyncio
import collections
import errno
import heapq
import itertools
import socket
import threading
from asyncio import base_events, events, tasks, transports


class Quiescent(Exception):
    """select() was asked to block forever and nothing is enabled."""


class Livelock(Exception):
    """iteration cap exceeded"""


class ReplayDivergence(Exception):
    """a recorded choice does not fit the execution being replayed (infrastructure error)"""


# --------------------------------------------------------------------------
# choice bookkeeping
# --------------------------------------------------------------------------

class Chooser:
    """Replays ``prefix`` then answers 0.  ``points`` = [(kind, n, chosen)].

    ``kinds`` restricts which kinds of deviation are offered at all (points of
    other kinds are not even recorded, they silently take the canonical answer).
    ``active`` can be toggled by the driver so that only a window of the
    execution is explored.
    """

    ALL = frozenset({"early", "order", "batch", "split", "timer", "done", "exec"})

    def __init__(self, prefix=(), kinds=None, active=True):
        self.prefix = list(prefix)
        self.points = []
        self.kinds = self.ALL if kinds is None else frozenset(kinds)
        self.active = active

    def choose(self, kind, n, labels=None):
        if n <= 1:
            return 0
        i = len(self.points)
        if i < len(self.prefix):
            c = self.prefix[i]
            if c >= n:
                raise ReplayDivergence(f"point {i}: choice {c} but only {n} alternatives ({kind})")
        else:
            c = 0
        self.points.append((kind, n, c))
        return c

    @property
    def choices(self):
        return [p[2] for p in self.points]

    @property
    def deviations(self):
        return sum(1 for p in self.points if p[2])


# --------------------------------------------------------------------------
# network objects
# --------------------------------------------------------------------------

class FakeSock:
    def __init__(self, family, addr):
        self.family = family
        self._addr = addr
        self.type = socket.SOCK_STREAM

    def getsockname(self):
        return self._addr

    def fileno(self):
        return -1


class SimListener:
    """Mirror of asyncio.base_events.Server (3.12.1 semantics of wait_closed)."""

    def __init__(self, loop, net, host, port, factory, owner):
        self.loop, self.net, self.host, self.port = loop, net, host, port
        self.factory = factory
        self.owner = owner
        fam = socket.AF_INET6 if ":" in (host or "") else socket.AF_INET
        addr = (host, port) if fam == socket.AF_INET else (host, port, 0, 0)
        self._socks = [FakeSock(fam, addr)]
        self.closed = False
        self.backlog = collections.deque()  # [seq, server_transport]
        self._active = 0
        self._waiters = []
        self.idx = net.new_idx()
        self.accepted = 0

    @property
    def sockets(self):
        return () if self.closed else tuple(self._socks)

    def close(self):
        if self.closed:
            return
        self.closed = True
        if self.net.listeners.get(self.port) is self:
            del self.net.listeners[self.port]
        # connections still in the backlog are reset
        while self.backlog:
            seq, st = self.backlog.popleft()
            st._discard_unaccepted()
        if self._serving_forever_fut is not None and not self._serving_forever_fut.done():
            self._serving_forever_fut.cancel()
            self._serving_forever_fut = None
        if self._active == 0:
            self._wakeup()

    def _wakeup(self):
        waiters, self._waiters = self._waiters, None
        for w in waiters:
            if not w.done():
                w.set_result(None)

    def _attach(self):
        self._active += 1

    def _detach(self):
        self._active -= 1
        if self._active == 0 and self.closed and self._waiters is not None:
            self._wakeup()

    async def wait_closed(self):
        if self._waiters is None:
            return
        waiter = self.loop.create_future()
        self._waiters.append(waiter)
        await waiter

    def is_serving(self):
        return not self.closed

    def get_loop(self):
        return self.loop

    _serving_forever_fut = None

    async def serve_forever(self):
        # as asyncio.base_events.Server.serve_forever (3.12.1): when cancelled it closes the listener and then waits
        # for wait_closed(), i.e. until every accepted connection has ended
        if self._serving_forever_fut is not None:
            raise RuntimeError(f"server {self!r} is already being awaited on serve_forever()")
        if self.closed:
            raise RuntimeError(f"server {self!r} is closed")
        self._serving_forever_fut = self.loop.create_future()
        try:
            await self._serving_forever_fut
        except asyncio.CancelledError:
            try:
                self.close()
                await self.wait_closed()
            finally:
                raise
        finally:
            self._serving_forever_fut = None

    def __repr__(self):
        return f"<SimListener {self.host}:{self.port} owner={self.owner} closed={self.closed}>"


class SimTransport(transports.Transport):
    def __init__(self, loop, net, side, name, local, remote, window):
        super().__init__()
        self.loop, self.net, self.side, self.name = loop, net, side, name
        self._extra = {"peername": remote, "sockname": local, "socket": FakeSock(socket.AF_INET, local)}
        self.protocol = None
        self.peer = None
        self.inbox = collections.deque()  # items: [seq, kind, payload]
        self.closing = False
        self.closed = False        # connection_lost delivered
        self.read_paused = False
        self.read_done = False     # EOF was delivered and the protocol keeps the write side open
        self.accepted = side != "server"
        self.listener = None
        self.window = window
        self.write_paused = False
        self.eof_sent = False
        self.peer_gone = False     # peer closed fully: writes provoke RST
        self.rst_queued = False
        self.idx = net.new_idx()
        self.bytes_out = 0
        self.bytes_in = 0
        self.conn_lost_exc = None
        self.close_time = None
        self.write_log = None      # optional list of (time, nbytes)

    # -- asyncio.Transport API -------------------------------------------
    def get_extra_info(self, name, default=None):
        return self._extra.get(name, default)

    def is_closing(self):
        return self.closing

    def set_protocol(self, p):
        self.protocol = p

    def get_protocol(self):
        return self.protocol

    def pause_reading(self):
        self.read_paused = True

    def resume_reading(self):
        self.read_paused = False

    def is_reading(self):
        return not self.read_paused and not self.closing

    def get_write_buffer_size(self):
        # what write() accepted and the kernel has not taken: with a send buffer configured everything beyond it,
        # else everything while writing is paused (the peer's window is closed); nothing otherwise
        return self._in_flight() if self._user_buffered() else 0

    def _user_buffered(self):
        sndbuf = self.net.sndbuf
        n = self._in_flight()
        return n > 0 and (self.write_paused or (sndbuf is not None and n > sndbuf))

    def get_write_buffer_limits(self):
        return (self._low_water(), self.window)

    def set_write_buffer_limits(self, high=None, low=None):
        # same defaults and checks as asyncio.transports._FlowControlMixin
        if high is None:
            high = 64 * 1024 if low is None else 4 * low
        if low is None:
            low = high // 4
        if not high >= low >= 0:
            raise ValueError(f"high ({high!r}) must be >= low ({low!r}) must be >= 0")
        self.window = high
        self._low = low
        if self._in_flight() >= self.window:
            self._maybe_pause()
        else:
            self._maybe_resume()

    _low = None

    def _low_water(self):
        return self.window // 4 if self._low is None else self._low

    def _in_flight(self):
        p = self.peer
        if p is None:
            return 0
        return sum(len(it[2]) + sum(len(v) for v in it[3:]) for it in p.inbox if it[1] == "data")

    def write(self, data):
        if not isinstance(data, (bytes, bytearray, memoryview)):
            raise TypeError(f"data argument must be a bytes-like object, not {type(data).__name__!r}")
        if self.eof_sent:
            raise RuntimeError("Cannot call write() after write_eof()")
        if not data:
            return
        if self.closing or self.closed:
            return
        # Like a selector transport: what fits into the kernel's send buffer is copied at once; the rest is kept *by
        # reference* (asyncio does not copy it) until the peer has taken earlier data - a caller that re-uses its
        # buffer meanwhile changes what will be sent.  net.sndbuf=None: everything is copied at once.
        sndbuf = self.net.sndbuf
        if sndbuf is None:
            eager, lazy = bytes(data), None
        else:
            mv = memoryview(data)
            room = max(0, sndbuf - self._in_flight())
            eager, lazy = bytes(mv[:room]), (mv[room:] if len(mv) > room else None)
        n = len(eager) + (len(lazy) if lazy is not None else 0)
        self.bytes_out += n
        if self.write_log is not None:
            self.write_log.append((self.loop.time(), n))
        p = self.peer
        if self.peer_gone or p is None or p.closed or p.closing:
            # the kernel accepts it; an RST comes back later
            if not self.rst_queued:
                self.rst_queued = True
                self.inbox.append([self.net.new_seq(), "rst", b""])
            return
        if not (p.inbox and p.inbox[-1][1] == "data"):
            p.inbox.append([self.net.new_seq(), "data", b""])
        item = p.inbox[-1]
        if len(item) == 3:
            item[2] += eager                 # TCP coalesces unsent bytes
        elif eager:
            item.append(eager)               # behind data that is still only referenced
        if lazy is not None:
            item.append(lazy)
        self._maybe_pause()

    def _maybe_pause(self):
        if not self.write_paused and self._in_flight() >= self.window:
            self.write_paused = True
            try:
                self.protocol.pause_writing()
            except Exception as exc:  # pragma: no cover
                self.loop.call_exception_handler({"message": "pause_writing failed", "exception": exc})

    def _maybe_resume(self):
        if self._lost_pending:
            if self._in_flight() <= (self.net.sndbuf or 0):
                self._lost_pending = False
                self.loop.call_soon(self._call_connection_lost, None)
            return
        if self.write_paused and not self.closed and self._in_flight() <= self._low_water():
            self.write_paused = False
            self.protocol.resume_writing()

    def can_write_eof(self):
        return True

    def write_eof(self):
        if self.closing or self.eof_sent:
            return
        self.eof_sent = True
        p = self.peer
        if p is not None and not p.closed and not p.closing:
            p.inbox.append([self.net.new_seq(), "eof", b""])

    def close(self):
        if self.closing or self.loop.is_closed():
            return
        self.closing = True
        self.close_time = self.loop.time()
        p = self.peer
        if p is not None and not p.closed:
            if not self.eof_sent:
                p.inbox.append([self.net.new_seq(), "fin", b""])
            else:
                p.inbox.append([self.net.new_seq(), "gone", b""])
        self.inbox.clear()
        if p is not None and getattr(p, "_lost_pending", False):
            # the peer was waiting for us to take its buffered data before it could finish closing: it never will
            p._lost_pending = False
            self.loop.call_soon(p._call_connection_lost, ConnectionResetError(errno.ECONNRESET, "peer closed"))
        if self._user_buffered() and p is not None and not p.closed and not p.closing:
            # like a real transport: data accepted by write() but not yet taken by the kernel (the peer's window is
            # closed) is flushed first; the socket stays open, and connection_lost (and StreamWriter.wait_closed)
            # happens only after that
            self._lost_pending = True
            return
        self.loop.call_soon(self._call_connection_lost, None)

    _lost_pending = False
    lost_time = None

    def held(self):
        """the socket is still open: not closed yet, or closing but waiting for the peer to take buffered data"""
        return not self.closed and (not self.closing or self._lost_pending)

    def abort(self):
        self._force_close(None, rst=True)

    def _force_close(self, exc, rst=False):
        if self.closed or self.loop.is_closed():
            return              # (a coroutine finalised after the world was taken down)
        already = self.closing
        self.closing = True
        if self.close_time is None:
            self.close_time = self.loop.time()
        p = self.peer
        if rst and p is not None and not p.closed:
            # pending data towards the peer is discarded, peer sees a reset
            keep = [it for it in p.inbox if it[1] not in ("data", "eof", "fin", "gone")]
            p.inbox.clear()
            p.inbox.extend(keep)
            p.inbox.append([self.net.new_seq(), "rst", b""])
        elif not already and p is not None and not p.closed:
            p.inbox.append([self.net.new_seq(), "gone", b""])
        self.inbox.clear()
        if p is not None and getattr(p, "_lost_pending", False):
            p._lost_pending = False
            self.loop.call_soon(p._call_connection_lost, ConnectionResetError(errno.ECONNRESET, "peer closed"))
        if not already or exc is not None or self._lost_pending:
            self._lost_pending = False
            self.loop.call_soon(self._call_connection_lost, exc)

    def _call_connection_lost(self, exc):
        if self.closed:
            return
        self.closed = True
        self.lost_time = self.loop.time()
        self.conn_lost_exc = exc
        self.inbox.clear()
        try:
            if self.protocol is not None and self.accepted:
                self.protocol.connection_lost(exc)
        finally:
            if self.listener is not None and self.accepted and self._attached:
                self._attached = False
                self.listener._detach()

    _attached = False

    def _discard_unaccepted(self):
        """listener closed while this connection was still in its backlog"""
        self.closing = True
        self.closed = True
        p = self.peer
        if p is not None and not p.closed:
            p.inbox.append([self.net.new_seq(), "rst", b""])

    def __repr__(self):
        return f"<SimTransport {self.name} {self.side} closing={self.closing} closed={self.closed}>"


class ExecJob:
    def __init__(self, seq, func, fut, executor=None):
        self.seq, self.func, self.fut = seq, func, fut
        # the pool the job was handed to (None: the loop's default pool, taken to have a free thread always); a pool
        # object with ``_max_workers`` = m runs its m oldest jobs, the others wait for a thread
        self.executor = executor


class Net:
    def __init__(self, loop, window=65536):
        self.loop = loop
        self.window = window
        self.listeners = {}
        self.all_listeners = []
        self.all_transports = []
        self.next_port = 40000
        self.bind_plan = {}        # port -> list of outcomes per attempt: "ok" | errno int
        self.blackholes = set()    # ports a connect to which is never answered
        self.bind_attempts = collections.Counter()
        self._seq = itertools.count(1)
        self._idx = itertools.count(1)
        self.jobs = []
        self.stuck = None          # predicate(job): this blocking call never returns
        self.trace = []            # delivery trace (for determinism checks / replays)
        self.n_events = 0
        self.split_policy = default_split_positions
        self.exec_cancellable = False   # executor jobs whose future is cancelled before completion are withdrawn (queued jobs)
        self.sndbuf = None         # bytes of one direction the "kernel" copies at write() time (None = everything)
        self.on_event = None       # callback(n_events) after each delivery (fault injection)

    def new_seq(self):
        return next(self._seq)

    def new_idx(self):
        return next(self._idx)

    # -- enabled environment events --------------------------------------
    def enabled(self):
        ev = []
        for t in self.all_transports:
            if t.closed or t.closing or not t.inbox or not t.accepted:
                continue
            head = t.inbox[0]
            if head[1] == "rst":
                ev.append((head[0], "net", t))
                continue
            if t.read_paused or t.read_done:
                # nothing is noticed while the reader is not registered, except
                # that a "gone"/"fin" behind already-seen EOF just updates kernel state
                if t.read_done and head[1] in ("gone", "fin"):
                    ev.append((head[0], "net", t))
                continue
            ev.append((head[0], "net", t))
        for l in self.all_listeners:
            if not l.closed and l.backlog:
                ev.append((l.backlog[0][0], "accept", l))
        running = {}
        for j in sorted(self.jobs, key=lambda x: x.seq):
            m = getattr(j.executor, "_max_workers", None) if j.executor is not None else None
            if m is not None:
                k = running.get(id(j.executor), 0)
                if k >= m:
                    continue                     # every thread of its pool is busy with an older job
                running[id(j.executor)] = k + 1
            if self.stuck is not None and self.stuck(j):
                continue                         # a blocking call that does not return (it keeps its thread)
            ev.append((j.seq, "exec", j))
        ev.sort(key=lambda e: e[0])
        return ev

    def deliver(self, ev, cut=None):
        seq, kind, obj = ev
        # a batched second delivery may have been invalidated by the first one (reset, close)
        if kind == "accept":
            if obj.closed or not obj.backlog or obj.backlog[0][0] != seq:
                return
        elif kind == "exec":
            if obj not in self.jobs:
                return
        elif obj.closed or obj.closing or not obj.inbox or obj.inbox[0][0] != seq:
            return
        self.n_events += 1
        if kind == "accept":
            self._deliver_accept(obj)
        elif kind == "exec":
            self._deliver_exec(obj)
        else:
            self._deliver_net(obj, cut)
        if self.on_event is not None:
            self.on_event(self.n_events)

    def _deliver_accept(self, l):
        seq, st = l.backlog.popleft()
        self.trace.append(("accept", l.port, st.name))
        st.accepted = True
        st.listener = l
        st._attached = True
        l._attach()
        l.accepted += 1
        proto = l.factory()
        st.protocol = proto
        self.loop.call_soon(proto.connection_made, st)

    def _deliver_exec(self, j):
        self.jobs.remove(j)
        self.trace.append(("exec", getattr(j.func, "__name__", "job")))

        def run():
            # the blocking function ran in a worker thread no matter whether the
            # awaiting task was cancelled meanwhile
            try:
                res = j.func()
            except BaseException as exc:  # noqa
                if not j.fut.done():
                    if isinstance(exc, StopIteration):
                        exc = RuntimeError("StopIteration in executor job")
                    j.fut.set_exception(exc)
                return
            if not j.fut.done():
                j.fut.set_result(res)

        self.loop.call_soon(run)

    @staticmethod
    def materialise(item):
        """the kernel now takes the bytes that were only referenced so far (whatever they are by now)"""
        if len(item) > 3:
            item[2] = bytes(item[2]) + b"".join(bytes(v) for v in item[3:])
            del item[3:]

    def _deliver_net(self, t, cut):
        item = t.inbox[0]
        if item[1] == "data":
            self.materialise(item)
        seq, kind, payload = item
        if kind == "data":
            if cut is not None and 0 < cut < len(payload):
                part, item[2] = payload[:cut], payload[cut:]
            else:
                part = payload
                t.inbox.popleft()
            t.bytes_in += len(part)
            self.trace.append(("data", t.name, len(part)))
            self.loop.call_soon(self._data_received, t, part)
            if t.peer is not None:
                t.peer._maybe_resume()
        elif kind in ("eof", "fin"):
            t.inbox.popleft()
            self.trace.append((kind, t.name))
            if kind == "fin":
                t.peer_gone = True
            self.loop.call_soon(self._eof_received, t)
        elif kind == "gone":
            t.inbox.popleft()
            self.trace.append(("gone", t.name))
            t.peer_gone = True
        elif kind == "rst":
            t.inbox.popleft()
            self.trace.append(("rst", t.name))
            t.peer_gone = True
            t._force_close(ConnectionResetError(errno.ECONNRESET, "Connection reset by peer"))

    def _data_received(self, t, data):
        if t.closed or t.closing:
            return
        try:
            t.protocol.data_received(data)
        except Exception as exc:
            t._force_close(exc)

    def _eof_received(self, t):
        if t.closed or t.closing:
            return
        try:
            keep = t.protocol.eof_received()
        except Exception as exc:
            t._force_close(exc)
            return
        if keep:
            t.read_done = True
        else:
            t.close()

    # -- ledger ----------------------------------------------------------
    def open_transports(self, side=None):
        return [t for t in self.all_transports if not t.closing and not t.closed and (side is None or t.side == side)]

    def open_listeners(self, owner=None):
        return [l for l in self.all_listeners if not l.closed and (owner is None or l.owner == owner)]


def default_split_positions(data):
    n = len(data)
    if n <= 1:
        return []
    pos = {1, n - 1, n // 2}
    for i, b in enumerate(data):
        if b in (10, 13):
            pos.add(i)
            pos.add(i + 1)
    return sorted(p for p in pos if 0 < p < n)[:8]


def all_split_positions(data):
    return list(range(1, len(data)))


# --------------------------------------------------------------------------
# the loop
# --------------------------------------------------------------------------

class _VTask(tasks.Task):
    """Task that hashes by its creation index: sets of tasks (asyncio.wait arguments, the dispatcher's
    `pending | extra_workers`) then iterate in an order that depends on the execution only, not on memory addresses,
    so that one choice sequence always replays to the same execution."""

    def __init__(self, idx, coro, **kw):
        self._vf_idx = idx
        super().__init__(coro, **kw)

    def __hash__(self):
        return self._vf_idx


class SimLoop(base_events.BaseEventLoop):
    def __init__(self, chooser=None, window=65536, max_iterations=200000):
        super().__init__()
        self._vtime = 0.0
        self.net = Net(self, window=window)
        self._selector = self
        self.iterations = 0
        self.max_iterations = max_iterations
        self.chooser = chooser or Chooser()
        self.time_limit = float("inf")
        self.errors = []          # loop exception handler records
        self.set_exception_handler(self._on_error)
        self._task_counter = itertools.count(1)
        self.task_index = {}
        self.set_task_factory(self._make_task)     # (BaseEventLoop keeps the factory in self._task_factory)
        self.current_owner = "server"   # who creates listeners/connections right now
        self.iter_hook = None     # callback(iteration) at the start of every select()
        self.time_hook = None     # callback(n) just before the n-th advance of virtual time (nothing else can happen)
        self.time_advances = 0

    # -- bookkeeping -------------------------------------------------------
    def _on_error(self, loop, context):
        self.errors.append(context)

    def _make_task(self, loop, coro, **kw):
        return _VTask(next(self._task_counter), coro, loop=loop, **kw)

    # -- selector facade ---------------------------------------------------
    def select(self, timeout):
        self.iterations += 1
        if self.iterations > self.max_iterations:
            raise Livelock(f"more than {self.max_iterations} loop iterations")
        if self.iter_hook is not None:
            self.iter_hook(self.iterations)
        ch = self.chooser
        net = self.net
        en = net.enabled()
        if self._ready:
            if en and ch.active and "early" in ch.kinds:
                c = ch.choose("early", 1 + len(en))
                if c:
                    net.deliver(en[c - 1])
            return ()
        if en:
            opts = [("deliver", 0, None)]
            if ch.active:
                if "order" in ch.kinds:
                    for i in range(1, len(en)):
                        opts.append(("deliver", i, None))
                if "batch" in ch.kinds:
                    for i in range(1, len(en)):
                        opts.append(("batch", i, None))
                if "split" in ch.kinds and en[0][1] == "net" and en[0][2].inbox[0][1] == "data":
                    net.materialise(en[0][2].inbox[0])
                    for cut in net.split_policy(en[0][2].inbox[0][2]):
                        opts.append(("split", 0, cut))
                if "timer" in ch.kinds and timeout is not None and self._vtime + timeout <= self.time_limit:
                    opts.append(("timer", 0, None))
                c = ch.choose("deliver", len(opts))
            else:
                c = 0
            kind, i, cut = opts[c]
            if kind == "deliver":
                net.deliver(en[i])
            elif kind == "batch":
                net.deliver(en[0])
                net.deliver(en[i])
            elif kind == "split":
                net.deliver(en[0], cut=cut)
            elif kind == "timer":
                self._vtime += timeout
            return ()
        if timeout is None:
            if self._stopping:
                return ()
            raise Quiescent()
        if self._vtime + timeout > self.time_limit:
            raise Quiescent()
        if self.time_hook is not None:
            self.time_hook(self.time_advances)
            if self._ready or net.enabled():
                return ()
        self.time_advances += 1
        self._vtime += timeout
        return ()

    def _process_events(self, evs):
        pass

    def time(self):
        return self._vtime

    def _write_to_self(self):
        pass

    def close(self):
        if not self.is_closed():
            self._closed = True
            self._ready.clear()
            self._scheduled.clear()

    def _start_serving(self, *a, **k):  # pragma: no cover
        raise NotImplementedError

    # -- network -----------------------------------------------------------
    async def _noop(self):
        return None

    async def create_server(self, protocol_factory, host=None, port=None, *, ssl=None,
                            start_serving=True, **kw):
        owner = self.current_owner
        # window A: address resolution (gather of one child task), exactly like
        # BaseEventLoop.create_server for a literal address
        await tasks.gather(self._noop())
        net = self.net
        if not port:
            while net.next_port in net.listeners:
                net.next_port += 1
            port = net.next_port
            net.next_port += 1
        n = net.bind_attempts[port]
        net.bind_attempts[port] += 1
        plan = net.bind_plan.get(port)
        if plan and n < len(plan) and isinstance(plan[n], str) and plan[n].startswith("slow:"):
            # address resolution / the event loop is slow: the start-up takes that many (virtual) seconds
            await tasks.sleep(float(plan[n][5:]))
        elif plan and n < len(plan) and plan[n] != "ok":
            code = plan[n]
            raise OSError(code, f"error while attempting to bind on address ({host!r}, {port}): injected")
        if port in net.listeners:
            raise OSError(errno.EADDRINUSE,
                          f"error while attempting to bind on address ({host!r}, {port}): address already in use")
        srv = SimListener(self, net, host or "0.0.0.0", port, protocol_factory, owner)
        srv.ssl = ssl          # (no TLS on SimNet: only remembered, so that a check can compare listeners)
        net.listeners[port] = srv
        net.all_listeners.append(srv)
        if start_serving:
            # window B: the socket is bound and accepting
            await tasks.sleep(0)
        return srv

    def _connect_pair(self, host, port, cproto, owner, source_port=None, source_host=None):
        net = self.net
        srv = net.listeners.get(port)
        if srv is None or srv.closed:
            raise ConnectionRefusedError(errno.ECONNREFUSED, f"Connect call failed ({host!r}, {port})")
        if source_port is not None:
            # the peer binds its socket to a port of its choice (one it has used before and given up)
            cport = source_port
        else:
            cport = net.next_port
            net.next_port += 1
        chost = "127.0.0.1" if ":" not in (host or "") else "::1"
        if source_host is not None:
            # a peer with more than one address (or two hosts working together): this connection comes from another one
            chost = source_host
        ct = SimTransport(self, net, owner, f"c{cport}", (chost, cport), (host, port), net.window)
        st = SimTransport(self, net, "server", f"s{cport}", (srv.host, port), (chost, cport), net.window)
        ct.peer, st.peer = st, ct
        ct.protocol = cproto
        st.listener = srv
        net.all_transports += [st, ct]
        srv.backlog.append([net.new_seq(), st])
        return ct

    async def create_connection(self, protocol_factory, host=None, port=None, *, ssl=None, **kw):
        owner = self.current_owner if self.current_owner != "server" else "client"
        await tasks.sleep(0)
        if port in self.net.blackholes:
            # an address that swallows the SYN: the connect neither succeeds nor fails (until the operating system
            # gives up, minutes later - beyond every horizon here)
            await self.create_future()
        cproto = protocol_factory()
        ct = self._connect_pair(host, port, cproto, owner)
        cproto.connection_made(ct)
        return ct, cproto

    def run_in_executor(self, executor, func, *args):
        fut = self.create_future()
        if args:
            import functools
            func = functools.partial(func, *args)
        job = ExecJob(self.net.new_seq(), func, fut, executor)
        self.net.jobs.append(job)
        if self.net.exec_cancellable:
            # the job is still *queued* in the pool (all workers busy): cancelling its future withdraws it, the blocking
            # function never runs.  (Default False: the job is taken to be running already and completes regardless.)
            def withdrawn(f, job=job):
                if f.cancelled() and job in self.net.jobs:
                    self.net.jobs.remove(job)
                    self.net.trace.append(("exec-withdrawn", getattr(job.func, "__name__", "job")))
            fut.add_done_callback(withdrawn)
        return fut

    # -- manual stepping ---------------------------------------------------
    def _purge_cancelled_timers(self):
        while self._scheduled and self._scheduled[0]._cancelled:
            self._timer_cancelled_count -= 1
            h = heapq.heappop(self._scheduled)
            h._scheduled = False

    def can_progress(self):
        if self._ready:
            return True
        if self.net.enabled():
            return True
        self._purge_cancelled_timers()
        if self._scheduled and self._scheduled[0]._when <= self.time_limit:
            return True
        return False

    def step(self):
        self._run_once()


class Running:
    """context manager: make ``loop`` the running loop of this thread"""

    def __init__(self, loop):
        self.loop = loop

    def __enter__(self):
        self.old = events._get_running_loop()
        events._set_running_loop(None)
        events._set_running_loop(self.loop)
        self.loop._thread_id = threading.get_ident()
        return self.loop

    def __exit__(self, *a):
        self.loop._thread_id = None
        events._set_running_loop(None)
        if self.old is not None:
            events._set_running_loop(self.old)
