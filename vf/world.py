"""A closed world: SimLoop + clock/ordering shims + raw peers + helpers.  DESIGN.md §2."""
import asyncio
import datetime as _datetime
import gc
import itertools
import logging
import pathlib
import signal
import sys
import threading
import time as _time
import types

from . import simloop
from .simloop import Chooser, Quiescent, Livelock, Running, SimLoop

EPOCH0 = 1700000000.0  # 2023-11-14T22:13:20Z


class Hang(Exception):
    """the world went quiescent although the driver is not finished"""


class WallClock(KeyboardInterrupt):
    """a single settle() took more than WALL_LIMIT real seconds: some code under test spins without ever yielding
    to the event loop (derived from KeyboardInterrupt so that asyncio lets it through a Task step)"""


WALL_LIMIT = float(__import__("os").environ.get("VERIF_WALL_LIMIT", "15"))   # s of wall clock per settle(); a healthy one needs milliseconds


def _alarm(signum, frame):
    raise WallClock()


def import_aioftp():
    import aioftp  # noqa
    import aioftp.server, aioftp.client, aioftp.pathio, aioftp.common  # noqa
    return aioftp


# --------------------------------------------------------------------------
# shims (run-time patching from the harness; no source change)
# --------------------------------------------------------------------------

class _TimeShim:
    def __init__(self, world):
        self._w = world

    def time(self):
        return self._w.wall()

    def __getattr__(self, name):
        return getattr(_time, name)


class _DatetimeClassShim(_datetime.datetime):
    _world = None

    @classmethod
    def now(cls, tz=None):
        return _datetime.datetime.fromtimestamp(cls._world.wall(), tz)


class _DatetimeShim:
    def __init__(self, world):
        self.datetime = type("datetime", (_DatetimeClassShim,), {"_world": world})

    def __getattr__(self, name):
        return getattr(_datetime, name)


class OrderedDone(set):
    """`done` set of asyncio.wait iterating in a fixed (task creation) order"""

    def __init__(self, items, order):
        super().__init__(items)
        self._order = order

    def __iter__(self):
        return iter(self._order)


class _AsyncioShim:
    def __init__(self, world):
        self._w = world

    async def wait(self, fs, **kw):
        done, pending = await asyncio.wait(fs, **kw)
        order = sorted(done, key=lambda t: getattr(t, "_vf_idx", 0))
        if len(order) > 1:
            ch = self._w.loop.chooser
            if ch.active and "done" in ch.kinds:
                perms = list(itertools.permutations(range(len(order))))[:6]
                c = ch.choose("done", len(perms))
                order = [order[i] for i in perms[c]]
        return OrderedDone(done, order), pending

    def __getattr__(self, name):
        return getattr(asyncio, name)


_ORIG_DEL = None


def _neutralise_streamwriter_del():
    """asyncio.StreamWriter.__del__ closes a forgotten transport when the
    writer is garbage collected; release-by-GC is neither prompt nor
    deterministic, so the sim does not count it as a release."""
    global _ORIG_DEL
    from asyncio import streams
    if _ORIG_DEL is None and hasattr(streams.StreamWriter, "__del__"):
        _ORIG_DEL = streams.StreamWriter.__del__
        streams.StreamWriter.__del__ = lambda self: None


# --------------------------------------------------------------------------

class World:
    def __init__(self, chooser=None, window=65536, epoch0=EPOCH0, max_iterations=200000,
                 horizon=10.0 ** 7, patch=True):
        self.aioftp = import_aioftp()
        self.loop = SimLoop(chooser=chooser, window=window, max_iterations=max_iterations)
        self.net = self.loop.net
        self.epoch0 = epoch0
        self.horizon = horizon
        self._patched = []
        self.tasks = []
        self.livelocked = None
        if patch:
            self._patch()
        _neutralise_streamwriter_del()

    # -- clocks ------------------------------------------------------------
    def wall(self):
        return self.epoch0 + self.loop.time()

    def _patch(self):
        a = self.aioftp
        for mod, name, shim in (
            (a.pathio, "time", _TimeShim(self)),
            (a.server, "time", _TimeShim(self)),
            (a.client, "datetime", _DatetimeShim(self)),
            (a.server, "asyncio", _AsyncioShim(self)),
        ):
            self._patched.append((mod, name, getattr(mod, name)))
            setattr(mod, name, shim)

    def close(self):
        for mod, name, orig in reversed(self._patched):
            setattr(mod, name, orig)
        self._patched = []
        loop = self.loop
        if self.livelocked:
            loop.close()
            return
        with Running(loop):
            for t in asyncio.all_tasks(loop):
                t.cancel()
            # let cancellations unwind silently (bounded)
            loop.time_limit = loop.time()
            loop.chooser.active = False
            try:
                for _ in range(200):
                    if not loop._ready:
                        break
                    loop._run_once()
            except (Quiescent, Livelock):
                pass
            except Exception:
                pass
        loop.close()

    def __enter__(self):
        return self

    def __exit__(self, *a):
        self.close()

    # -- running -----------------------------------------------------------
    def spawn(self, coro, owner=None):
        with Running(self.loop):
            if owner is None:
                t = self.loop.create_task(coro)
            else:
                t = self.loop.create_task(self._as_owner(coro, owner))
        self.tasks.append(t)
        return t

    async def _as_owner(self, coro, owner):
        # only meaningful for code that connects at once; kept simple
        self.loop.current_owner = owner
        try:
            return await coro
        finally:
            self.loop.current_owner = "server"

    def settle(self, advance=None, until=None):
        """run until nothing can happen any more (no ready handle, no enabled
        event, no timer within ``advance`` seconds of virtual time)."""
        loop = self.loop
        if self.livelocked:
            return self
        loop.time_limit = self.horizon if advance is None else loop.time() + advance
        armed = False
        try:
            if threading.current_thread() is threading.main_thread():
                # (an outer watchdog - the per-item budget of report.pmap - keeps running: its remaining time is put
                # back when this settle is over)
                outer_left, _ = signal.getitimer(signal.ITIMER_REAL)
                t_armed = _time.monotonic()
                old = signal.signal(signal.SIGALRM, _alarm)
                signal.setitimer(signal.ITIMER_REAL, WALL_LIMIT)
                armed = True
            with Running(loop):
                while loop.can_progress():
                    if until is not None and until():
                        break
                    try:
                        loop._run_once()
                    except Quiescent:
                        break
        except (WallClock, Livelock) as exc:
            # the code under test never comes back to the event loop (or never goes quiescent): the world is dead;
            # every later observation (missing replies, open sockets) is made on the frozen state
            self.livelocked = repr(exc)
        finally:
            if armed:
                signal.setitimer(signal.ITIMER_REAL, 0)
                signal.signal(signal.SIGALRM, old)
                if outer_left > 0:
                    signal.setitimer(signal.ITIMER_REAL, max(outer_left - (_time.monotonic() - t_armed), 0.01))
        return self

    def run(self, coro, advance=None):
        """spawn ``coro`` and settle; returns its result; raises Hang when the world
        goes quiescent with the coroutine unfinished."""
        t = self.spawn(coro)
        self.settle(advance, until=t.done)
        if not t.done():
            raise Hang(f"quiescent at t={self.loop.time()} with driver pending")
        return t.result()

    def advance_to(self, t):
        """jump the clock to t if nothing is scheduled before"""
        self.settle(max(0.0, t - self.loop.time()))
        if self.loop.time() < t:
            self.loop._vtime = t

    def set_active(self, flag):
        self.loop.chooser.active = flag

    # -- server ------------------------------------------------------------
    def start_server(self, server, host="127.0.0.1", port=2121, **start_kwargs):
        self.loop.current_owner = "server"
        act = self.loop.chooser.active
        self.loop.chooser.active = False
        try:
            self.run(server.start(host, port, **start_kwargs))
        finally:
            self.loop.chooser.active = act
        return server

    def close_server(self, server, advance=0):
        """server.close() must return; returns (finished?, task)"""
        t = self.spawn(server.close())
        self.settle(advance, until=t.done)
        return t.done() and not t.cancelled() and t.exception() is None, t

    # -- errors ------------------------------------------------------------
    def loop_errors(self):
        """exception-handler records, minus the CPython 3.12 StreamReaderProtocol artefact"""
        gc.collect(1)
        out = []
        for ctx in self.loop.errors:
            msg = ctx.get("message", "")
            exc = ctx.get("exception")
            if isinstance(exc, asyncio.CancelledError) and "connection_made" in msg:
                continue
            if "StreamReaderProtocol.connection_made" in msg and isinstance(exc, asyncio.CancelledError):
                continue
            out.append(ctx)
        return out

    # -- peers ---------------------------------------------------------------
    def peer(self, name="peer"):
        return RawPeer(self, name)


# --------------------------------------------------------------------------
# raw peers (not asyncio tasks)
# --------------------------------------------------------------------------

class RawProtocol(asyncio.Protocol):
    def __init__(self):
        self.buf = bytearray()
        self.total = bytearray()
        self.eof = False
        self.lost = False
        self.lost_exc = None
        self.transport = None
        self.paused = False
        self.recv_log = []

    def connection_made(self, transport):
        self.transport = transport

    def data_received(self, data):
        self.buf += data
        self.total += data
        self.recv_log.append((self.transport.loop.time(), len(data)))

    def eof_received(self):
        self.eof = True
        return True

    def connection_lost(self, exc):
        self.lost = True
        self.lost_exc = exc

    def pause_writing(self):
        self.paused = True

    def resume_writing(self):
        self.paused = False


class RawConn:
    def __init__(self, world, transport, proto):
        self.world, self.t, self.p = world, transport, proto

    def send(self, data):
        if isinstance(data, str):
            data = data.encode("utf-8")
        self.t.write(data)

    def close(self):
        self.t.close()

    def reset(self):
        self.t.abort()

    def send_eof(self):
        self.t.write_eof()

    def stop_reading(self):
        self.t.pause_reading()

    def take(self):
        b = bytes(self.p.buf)
        self.p.buf.clear()
        return b

    @property
    def received(self):
        return bytes(self.p.total)

    @property
    def eof(self):
        return self.p.eof or self.p.lost

    @property
    def closed_by_peer(self):
        return self.p.eof or self.p.lost

    def take_replies(self):
        """complete FTP replies received so far: [(code, [lines])]; an
        incomplete tail stays buffered"""
        raw = bytes(self.p.buf)
        out, pos, consumed, cur = [], 0, 0, None
        while True:
            nl = raw.find(b"\n", pos)
            if nl < 0:
                break
            s = raw[pos:nl + 1].decode("utf-8", "replace").rstrip("\r\n")
            pos = nl + 1
            if cur is None:
                if len(s) > 3 and s[3] == "-":
                    cur = (s[:3], [s[4:]])
                else:
                    out.append((s[:3], [s[4:]]))
                    consumed = pos
            elif s[:3] == cur[0] and s[3:4] in (" ", ""):
                cur[1].append(s[4:])
                out.append(cur)
                cur = None
                consumed = pos
            else:
                cur[1].append(s)
        del self.p.buf[:consumed]
        return out


class RawPeer:
    def __init__(self, world, name):
        self.world, self.name = world, name
        self.conns = []

    def connect(self, port, host="127.0.0.1", source_port=None, source_host=None):
        loop = self.world.loop
        proto = RawProtocol()
        with Running(loop):
            ct = loop._connect_pair(host, port, proto, self.name, source_port=source_port, source_host=source_host)
            proto.connection_made(ct)
        c = RawConn(self.world, ct, proto)
        self.conns.append(c)
        return c

    def vanish(self, reset=False):
        with Running(self.world.loop):
            for c in self.conns:
                if reset:
                    c.reset()
                else:
                    c.close()


# --------------------------------------------------------------------------
# FTP session on a raw peer
# --------------------------------------------------------------------------

class Session:
    """scripted control connection + optional data connection, driven synchronously"""

    def __init__(self, world, port=2121, name="peer", advance=None, host="127.0.0.1"):
        self.world = world
        self.peer = world.peer(name)
        self.port = port
        self.host = host
        self.ctl = None
        self.data = None
        self.pasv_port = None
        self.transcript = []
        self.advance = advance

    def connect(self):
        self.ctl = self.peer.connect(self.port, self.host)
        self.world.settle(self.advance)
        r = self.ctl.take_replies()
        self.transcript.append(("<connect>", r))
        return r

    def send(self, line):
        with Running(self.world.loop):
            self.ctl.send(line if isinstance(line, bytes) else (line + "\r\n").encode("utf-8"))

    def cmd(self, line, advance="default"):
        self.send(line)
        self.world.settle(self.advance if advance == "default" else advance)
        r = self.ctl.take_replies()
        self.transcript.append((line, r))
        return r

    def more(self, advance="default"):
        self.world.settle(self.advance if advance == "default" else advance)
        r = self.ctl.take_replies()
        if r:
            self.transcript.append(("<more>", r))
        return r

    def login(self, user="anonymous", password=None):
        r = self.cmd("USER " + user)
        if r and r[-1][0] == "331" and password is not None:
            r = self.cmd("PASS " + password)
        return r

    def passive(self, verb="EPSV"):
        r = self.cmd(verb)
        self.pasv_port = None
        if r and r[-1][0] == "229":
            s = r[-1][1][-1]
            self.pasv_port = int(s[s.rindex("|", 0, s.rindex("|")) + 1:s.rindex("|")])
        elif r and r[-1][0] == "227":
            s = r[-1][1][-1]
            nums = s[s.index("(") + 1:s.index(")")].split(",")
            self.pasv_port = (int(nums[4]) << 8) | int(nums[5])
        return r

    def connect_data(self, settle=True):
        with Running(self.world.loop):
            self.data = self.peer.connect(self.pasv_port)
        if settle:
            self.world.settle(self.advance)
        return self.data

    def data_send(self, payload, close=True):
        with Running(self.world.loop):
            if payload:
                self.data.send(payload)
            if close:
                self.data.close()

    def closed(self):
        return self.ctl is not None and self.ctl.closed_by_peer

    def codes(self):
        return [[c for c, _ in r] for _, r in self.transcript]


def flat_codes(replies):
    return [c for c, _ in replies]
