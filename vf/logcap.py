"""Capture every log record completely formatted (message, args, exc_info, stack, extras).  DESIGN.md §4.3"""
import logging
import traceback

_STD = set(logging.LogRecord("x", 0, "x", 0, "", (), None).__dict__) | {"message", "asctime"}


class Capture(logging.Handler):
    def __init__(self):
        super().__init__(level=0)
        self.records = []

    def emit(self, record):
        try:
            msg = record.getMessage()
        except Exception as exc:  # formatting failure is also an observation
            msg = f"<format error {exc!r} msg={record.msg!r} args={record.args!r}>"
        parts = [record.name, record.levelname, msg]
        if record.exc_info:
            parts.append("".join(traceback.format_exception(*record.exc_info)))
        if record.stack_info:
            parts.append(str(record.stack_info))
        extras = {k: repr(v) for k, v in record.__dict__.items() if k not in _STD}
        if extras:
            parts.append(repr(sorted(extras.items())))
        # raw msg/args as well: a handler may format differently
        parts.append(repr(record.msg))
        parts.append(repr(record.args))
        self.records.append((record, "\n".join(parts)))

    def text(self):
        return "\n".join(t for _, t in self.records)


class capture:
    """context manager: root + aioftp loggers at DEBUG into a Capture handler, nothing printed"""

    def __enter__(self):
        self.h = Capture()
        self.saved_disable = logging.root.manager.disable
        logging.disable(logging.NOTSET)
        self.root = logging.getLogger()
        self.saved_level = self.root.level
        self.saved_handlers = list(self.root.handlers)
        self.root.handlers = [self.h]
        self.root.setLevel(0)
        self.saved = {}
        for name in ("aioftp", "aioftp.server", "aioftp.client", "asyncio"):
            lg = logging.getLogger(name)
            self.saved[name] = (lg.level, lg.propagate, list(lg.handlers), lg.disabled)
            lg.setLevel(0)
            lg.propagate = True
            lg.disabled = False
        return self.h

    def __exit__(self, *a):
        for name, (lvl, prop, handlers, dis) in self.saved.items():
            lg = logging.getLogger(name)
            lg.setLevel(lvl)
            lg.propagate = prop
            lg.handlers = handlers
            lg.disabled = dis
        self.root.handlers = self.saved_handlers
        self.root.setLevel(self.saved_level)
        logging.disable(self.saved_disable)
