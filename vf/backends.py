"""Backends inside the world: spy/fault/delay wrappers for the three shipped
PathIO classes, tree population and snapshots.  DESIGN.md §2.5"""
import asyncio
import io
import os
import pathlib
import shutil
import stat as _stat
import tempfile

import itertools as _itertools

# diagnostic (never set by a registered command): VERIF_FS_SKEW=<seconds> makes every scratch tree of the file-system
# backends appear to live <seconds> later than the previous one of the same process - what the operating system's clock
# does between two runs of a case, without waiting for it.  A check that alarms under it compares the kernel's
# timestamps of two separate runs (DESIGN.md §2.3 "the file systems' own clock").
_SKEW_STEP = float(os.environ.get("VERIF_FS_SKEW", "0") or 0)
_SKEW_COUNT = _itertools.count(1)


class _SkewedStat:
    def __init__(self, st, skew):
        for k in dir(st):
            if k.startswith("st_"):
                v = getattr(st, k)
                if k in ("st_atime", "st_mtime", "st_ctime"):
                    v = v + skew
                elif k in ("st_atime_ns", "st_mtime_ns", "st_ctime_ns"):
                    v = v + int(skew * 10 ** 9)
                setattr(self, k, v)


OPS = ("exists", "is_dir", "is_file", "mkdir", "rmdir", "unlink", "list", "stat",
       "_open", "seek", "read", "write", "close", "rename")


class SpyControl:
    """shared by all PathIO instances of one server"""

    def __init__(self, delay=0.0, delay_ops=None, fail_at=None, fail_from=None, fail_op=None,
                 fail_exc=OSError):
        self.calls = []            # (op, str(first path arg) or None)
        self.owners = []           # parallel to calls: client port of the Connection the PathIO instance belongs to
        self.count = 0
        self.delay = delay
        self.delay_ops = set(delay_ops) if delay_ops is not None else None
        self.fail_at = fail_at      # 1-based index of the call that fails
        self.fail_from = fail_from  # every call of kind fail_op from this index on fails
        self.fail_op = fail_op
        self.fail_exc = fail_exc
        self.fail_text = None       # the error text of the injected failure (the operating system's, possibly localised)
        self.failed = []            # indices that were failed
        self.open_files = {}        # id(file) -> path
        self.opened = 0
        self.armed = True
        self.instances = []         # spy PathIO instances in creation order (one per connection)
        self.only_instance = None   # faults / counting restricted to this instance index
        # legal-but-unusual backend behaviours (a custom AbstractPathIO may show any of them)
        self.read_cap = None        # read() returns at most this many bytes although more are available
        self.buffered = False       # written data reaches the file only when it is closed (buffered file object) ...
        self.close_job = False      # ... and close() first waits for an executor job (an environment event)
        self.close_value = None     # what close() returns (None = whatever the wrapped backend returns)
        self.close_delay = 0.0      # ... or for this long (virtual time passes only when nothing else can happen)
        self.wbuf = {}              # id(file) -> [chunks]
        self.op_job = None          # set of ops that first wait for an executor job (exists/is_file/is_dir/stat ...)
        self.job_first = False      # the job is waited for before the call is counted / an injected failure is raised
        self.skew = _SKEW_STEP * next(_SKEW_COUNT) if _SKEW_STEP else 0.0

    def leaked(self):
        """paths of handles aioftp received and that are not closed (a real file
        object closed by a pool job whose awaiter was cancelled counts as closed)"""
        return sorted(p for p, f in self.open_files.values() if not getattr(f, "closed", False))

    async def before(self, op, args, inst=None):
        if not self.armed:
            return
        if self.only_instance is not None:
            if inst is None or inst not in self.instances or self.instances.index(inst) != self.only_instance:
                return
        self.count += 1
        k = self.count
        p = None
        for a in args:
            if isinstance(a, pathlib.PurePath):
                p = a
                break
        self.calls.append((op, None if p is None else str(p)))
        # whose request the backend believes it is serving: the Connection object its instance was created for
        try:
            self.owners.append(inst.connection.client_port)
        except Exception:
            self.owners.append(None)
        if self.fail_at is not None and k == self.fail_at:
            self.failed.append((k, op))
            raise self.fail_exc(5, self.fail_text or f"injected failure at backend call {k} ({op})")
        if self.fail_from is not None and k >= self.fail_from and op == self.fail_op:
            self.failed.append((k, op))
            raise self.fail_exc(5, self.fail_text or f"injected failure at backend call {k} ({op})")


async def _after(ctl, op, inst=None):
    """completion latency: the operation has taken effect (like a job handed to
    a thread pool), only its completion is reported late.  The backend honours
    its ``timeout`` (Server(path_timeout=...)) the way the shipped ones do: a
    call that takes longer raises asyncio.TimeoutError from inside the call."""
    if ctl.armed and ctl.delay and (ctl.delay_ops is None or op in ctl.delay_ops):
        # (honour_timeout=False: a plug-in that does not look at its ``timeout``, as the stock memory and synchronous
        # backends do not)
        await asyncio.wait_for(asyncio.sleep(ctl.delay),
                               getattr(inst, "timeout", None) if getattr(ctl, "honour_timeout", True) else None)


def _close_job():
    return None


def _op_job():
    return None


class Bare(Exception):
    """marker: the injected failure reaches the server as ``aioftp.PathIOError()`` raised by the plug-in itself - without
    the ``reason`` triple that only ``universal_exception`` fills in"""


def _bare_aware(ue):
    import functools
    from aioftp import errors

    def deco(f):
        g = ue(f)

        @functools.wraps(f)
        async def wrapper(*a, **kw):
            try:
                return await g(*a, **kw)
            except errors.PathIOError as exc:
                reason = getattr(exc, "reason", None)
                if reason and isinstance(reason[1], Bare):
                    raise errors.PathIOError() from None
                raise
        return wrapper
    return deco


def make_spy(base, ctl):
    """subclass of ``base`` whose every abstract operation reports to ``ctl``"""
    from aioftp import pathio
    from aioftp.common import AbstractAsyncLister
    ue = _bare_aware(pathio.universal_exception)

    class Spy(base):
        _ctl = ctl

        def __init__(self, *a, **kw):
            super().__init__(*a, **kw)
            if kw.get("connection") is not None:
                ctl.instances.append(self)

        @ue
        async def exists(self, path):
            if ctl.job_first and ctl.op_job and "exists" in ctl.op_job and ctl.armed:
                await asyncio.get_running_loop().run_in_executor(None, _op_job)
            await ctl.before("exists", (path,), self)
            if not ctl.job_first and ctl.op_job and "exists" in ctl.op_job and ctl.armed:
                await asyncio.get_running_loop().run_in_executor(None, _op_job)
            r = await super().exists(path)
            await _after(ctl, "exists", self)
            return r

        @ue
        async def is_dir(self, path):
            if ctl.job_first and ctl.op_job and "is_dir" in ctl.op_job and ctl.armed:
                await asyncio.get_running_loop().run_in_executor(None, _op_job)
            await ctl.before("is_dir", (path,), self)
            if not ctl.job_first and ctl.op_job and "is_dir" in ctl.op_job and ctl.armed:
                await asyncio.get_running_loop().run_in_executor(None, _op_job)
            r = await super().is_dir(path)
            await _after(ctl, "is_dir", self)
            return r

        @ue
        async def is_file(self, path):
            if ctl.job_first and ctl.op_job and "is_file" in ctl.op_job and ctl.armed:
                await asyncio.get_running_loop().run_in_executor(None, _op_job)
            await ctl.before("is_file", (path,), self)
            if not ctl.job_first and ctl.op_job and "is_file" in ctl.op_job and ctl.armed:
                await asyncio.get_running_loop().run_in_executor(None, _op_job)
            r = await super().is_file(path)
            await _after(ctl, "is_file", self)
            return r

        @ue
        async def mkdir(self, path, **kw):
            await ctl.before("mkdir", (path,), self)
            r = await super().mkdir(path, **kw)
            await _after(ctl, "mkdir", self)
            return r

        @ue
        async def rmdir(self, path):
            await ctl.before("rmdir", (path,), self)
            r = await super().rmdir(path)
            await _after(ctl, "rmdir", self)
            return r

        @ue
        async def unlink(self, path):
            await ctl.before("unlink", (path,), self)
            r = await super().unlink(path)
            await _after(ctl, "unlink", self)
            return r

        def list(self, path):
            inner = super().list(path)
            outer = self

            class L(AbstractAsyncLister):
                @ue
                async def __anext__(s):
                    await ctl.before("list", (path,), outer)
                    r = await inner.__anext__()
                    await _after(ctl, "list", outer)
                    return r

            return L(timeout=self.timeout)

        @ue
        async def stat(self, path):
            if ctl.job_first and ctl.op_job and "stat" in ctl.op_job and ctl.armed:
                await asyncio.get_running_loop().run_in_executor(None, _op_job)
            await ctl.before("stat", (path,), self)
            if not ctl.job_first and ctl.op_job and "stat" in ctl.op_job and ctl.armed:
                await asyncio.get_running_loop().run_in_executor(None, _op_job)
            r = await super().stat(path)
            await _after(ctl, "stat", self)
            if ctl.skew and isinstance(r, os.stat_result):
                r = _SkewedStat(r, ctl.skew)
            return r

        @ue
        async def _open(self, path, *a, **kw):
            await ctl.before("_open", (path,), self)
            f = await super()._open(path, *a, **kw)
            await _after(ctl, "_open", self)
            ctl.opened += 1
            ctl.open_files[id(f)] = (str(path), f)
            return f

        async def _flush(self, file):
            for chunk in ctl.wbuf.pop(id(file), []):
                await super().write(file, chunk)

        @ue
        async def seek(self, file, *a, **kw):
            await ctl.before("seek", (), self)
            await self._flush(file)
            r = await super().seek(file, *a, **kw)
            await _after(ctl, "seek", self)
            return r

        @ue
        async def write(self, file, *a, **kw):
            await ctl.before("write", (), self)
            if ctl.buffered and ctl.armed:
                ctl.wbuf.setdefault(id(file), []).append(bytes(a[0]))
                await _after(ctl, "write", self)
                return None
            r = await super().write(file, *a, **kw)
            await _after(ctl, "write", self)
            return r

        @ue
        async def read(self, file, *a, **kw):
            await ctl.before("read", (), self)
            if ctl.read_cap is not None and ctl.armed and a and a[0] is not None and (a[0] < 0 or a[0] > ctl.read_cap):
                a = (ctl.read_cap,) + tuple(a[1:])
            r = await super().read(file, *a, **kw)
            await _after(ctl, "read", self)
            return r

        @ue
        async def close(self, file):
            # a failing close still releases the handle as far as the harness
            # is concerned only if the real close ran
            try:
                await ctl.before("close", (), self)
            except BaseException:
                # an injected close failure says nothing about who leaked the handle
                ctl.open_files.pop(id(file), None)
                raise
            if ctl.close_job and ctl.armed:
                await asyncio.get_running_loop().run_in_executor(None, _close_job)
            if ctl.close_delay and ctl.armed:
                await asyncio.sleep(ctl.close_delay)
            await self._flush(file)
            r = await super().close(file)
            ctl.open_files.pop(id(file), None)
            await _after(ctl, "close", self)
            # the API documents no return value for close(): a backend may return anything (a commit id, True, ...)
            return ctl.close_value if (ctl.close_value is not None and ctl.armed) else r

        @ue
        async def rename(self, source, destination):
            await ctl.before("rename", (source, destination), self)
            if ctl.armed:
                ctl.calls[-1] = ("rename", str(source) + " -> " + str(destination))
            r = await super().rename(source, destination)
            await _after(ctl, "rename", self)
            return r

    Spy.__name__ = "Spy" + base.__name__
    return Spy


# --------------------------------------------------------------------------
# trees: {"a": {"x": b"..."}, "b": b"data", "c": {}}
# --------------------------------------------------------------------------

def populate_memory(server, tree, base="/", mtime=None, world=None):
    """build the tree directly inside the server's MemoryPathIO state"""
    from aioftp import pathio
    nursery = server.path_io_factory
    if nursery.state is None:
        inst = nursery(timeout=None, connection=None)
    fs = nursery.state
    root = fs[0]

    def mk(name, val):
        if isinstance(val, dict):
            n = pathio.Node("dir", name, content=[])
            for k, v in val.items():
                n.content.append(mk(k, v))
        else:
            n = pathio.Node("file", name, content=io.BytesIO(val))
        if mtime is not None:
            n.mtime = n.ctime = mtime
        return n

    node = root
    for part in pathlib.PurePosixPath(base).parts[1:]:
        for c in node.content:
            if c.name == part:
                node = c
                break
        else:
            c = pathio.Node("dir", part, content=[])
            node.content.append(c)
            node = c
    for k, v in tree.items():
        node.content.append(mk(k, v))


def snapshot_memory(server, base="/"):
    fs = server.path_io_factory.state
    if fs is None:
        return {}
    node = fs[0]
    for part in pathlib.PurePosixPath(base).parts[1:]:
        for c in node.content:
            if c.name == part:
                node = c
                break
        else:
            return {}
    out = {}

    def walk(n, prefix):
        for c in n.content:
            p = prefix + "/" + c.name
            if c.type == "dir":
                out[p] = None
                walk(c, p)
            else:
                out[p] = bytes(c.content.getbuffer())

    walk(node, "")
    return out


def snapshot_memory_all(server):
    """the whole in-memory file system, to detect writes outside the base"""
    return snapshot_memory(server, "/")


def populate_fs(root, tree, mtime=None):
    root = pathlib.Path(root)
    for k, v in tree.items():
        p = root / k
        if isinstance(v, dict):
            p.mkdir()
            populate_fs(p, v, mtime)
        else:
            p.write_bytes(v)
        if mtime is not None:
            os.utime(p, (mtime, mtime))


def snapshot_fs(root):
    root = pathlib.Path(root)
    out = {}
    for dirpath, dirnames, filenames in os.walk(root):
        rel = pathlib.Path(dirpath).relative_to(root)
        for d in dirnames:
            out["/" + str((rel / d).as_posix())] = None
        for f in filenames:
            out["/" + str((rel / f).as_posix())] = (pathlib.Path(dirpath) / f).read_bytes()
    return {k.replace("/./", "/"): v for k, v in out.items()}


def tree_to_snapshot(tree, prefix=""):
    out = {}
    for k, v in tree.items():
        p = prefix + "/" + k
        if isinstance(v, dict):
            out[p] = None
            out.update(tree_to_snapshot(v, p))
        else:
            out[p] = v
    return out


def _scratch_root():
    """where the file-system backends get their scratch directories: a RAM-backed file system when there is one
    (tens of thousands of small trees are made and removed per run), else the default temporary directory"""
    root = os.environ.get("VERIF_TMPDIR")
    if root:
        return root
    if os.path.isdir("/dev/shm") and os.access("/dev/shm", os.W_OK | os.X_OK):
        return "/dev/shm"
    return None


class TempDir:
    def __init__(self):
        self.path = pathlib.Path(tempfile.mkdtemp(prefix="aioftp-vf-", dir=_scratch_root()))

    def cleanup(self):
        shutil.rmtree(self.path, ignore_errors=True)

    def __enter__(self):
        return self.path

    def __exit__(self, *a):
        self.cleanup()
