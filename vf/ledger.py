"""Resource oracles on the SimNet ledger (black box) with white-box extras.  DESIGN.md §4.2"""
import asyncio


def server_side_open(world, exclude=()):
    """server-side transports whose socket is still open: neither closed nor closing - or closing, but kept until a
    peer that does not read takes what is buffered"""
    return [t for t in world.net.all_transports
            if t.side == "server" and t.accepted and t.held() and t not in exclude]


def unaccepted(world):
    return [t for t in world.net.all_transports if t.side == "server" and not t.accepted and not t.closed]


def server_listeners_open(world, main_port=2121):
    return [l for l in world.net.all_listeners if not l.closed and l.owner == "server" and l.port != main_port]


def pool_ports(server):
    q = getattr(server, "available_data_ports", None)
    if q is None:
        return None
    try:
        return sorted(p for _, p in q._queue)
    except Exception:
        return None


def live_connections(server):
    try:
        return list(server.connections.values())
    except Exception:
        return None


def session_passive_listeners(server):
    """listeners owned by live sessions (white box)"""
    out = []
    for c in live_connections(server) or []:
        try:
            if c.future.passive_server.done():
                out.append(c.passive_server)
        except Exception:
            pass
    return out


def pool_invariant(world, server, configured, main_port=2121):
    """multiset(pool) + multiset(ports bound by live sessions) == configured; no
    listener on a configured port without a live owner.  Returns list of problems."""
    problems = []
    pool = pool_ports(server)
    bound = sorted(l.port for l in world.net.all_listeners
                   if not l.closed and l.port in configured and l.owner == "server")
    owned = session_passive_listeners(server)
    owned_ports = sorted(l.port for l in owned if not l.closed and l.port in configured)
    if pool is not None:
        if sorted(pool + owned_ports) != sorted(configured):
            problems.append({"kind": "pool-conservation", "pool": pool, "owned": owned_ports,
                             "configured": sorted(configured)})
    orphan = [p for p in bound if p not in owned_ports]
    # multiset difference
    tmp = list(owned_ports)
    orphans = []
    for p in bound:
        if p in tmp:
            tmp.remove(p)
        else:
            orphans.append(p)
    if orphans:
        problems.append({"kind": "orphan-listener", "ports": orphans})
    return problems


def released_problems(world, server, ctl_transport=None, spy=None, main_port=2121, all_sessions_gone=True):
    """after every session has ended: nothing of the server is left open"""
    problems = []
    if all_sessions_gone:
        op = server_side_open(world)
        if op:
            problems.append({"kind": "server-transport-open", "names": [t.name for t in op]})
        ls = server_listeners_open(world, main_port)
        if ls:
            problems.append({"kind": "passive-listener-open", "ports": [l.port for l in ls]})
        conns = live_connections(server)
        if conns:
            problems.append({"kind": "connection-table-not-empty", "n": len(conns)})
    if spy is not None and spy.leaked():
        problems.append({"kind": "file-handle-open", "paths": spy.leaked()})
    return problems


def tasks_alive(world, ignore=()):
    return [t for t in asyncio.all_tasks(world.loop) if not t.done() and t not in ignore]


def closed_problems(world, server, spy=None, advance=0):
    """server.close() must complete and leave no task, socket or listener of the server"""
    ok, t = world.close_server(server, advance=advance)
    problems = []
    if not ok:
        why = "pending" if not t.done() else repr(t.exception() if not t.cancelled() else "cancelled")
        problems.append({"kind": "server-close-did-not-complete", "why": why})
    world.settle(advance)
    left = tasks_alive(world)
    if left:
        problems.append({"kind": "tasks-left", "names": sorted(_tname(x) for x in left)})
    op = server_side_open(world)
    if op:
        problems.append({"kind": "server-transport-open-after-close", "names": [x.name for x in op]})
    ls = [l for l in world.net.all_listeners if not l.closed and l.owner == "server"]
    if ls:
        problems.append({"kind": "listener-open-after-close", "ports": [l.port for l in ls]})
    if spy is not None and spy.leaked():
        problems.append({"kind": "file-handle-open-after-close", "paths": spy.leaked()})
    return problems


def _tname(t):
    try:
        return t.get_coro().__qualname__
    except Exception:
        return repr(t)
