"""A scripted raw FTP server on SimNet for client-side robustness cases (C19).

replies: dict verb -> bytes (raw reply stream, CRLF included) ; special keys:
  "greeting", "listing" (bytes sent on the data connection for LIST/MLSD/RETR)
Passive mode: EPSV/PASV open a real SimNet listener; the default replies name its port.
"""
import asyncio


class FakeServer:
    def __init__(self, replies=None, listing=b"", port=2121):
        self.replies = dict(replies or {})
        self.listing = listing
        self.port = port
        self.server = None
        self.writers = []
        self.passive = None
        self.data_writers = []
        self.commands = []
        self.listing_by_arg = {}
        self.replies_by_line = {}     # whole command line -> raw reply (takes precedence over the per-verb table)
        self.completion = b"226 done\r\n"   # what follows a transfer (None: nothing at all)
        self.sent = b""               # everything written on control connections
        self.script = None            # list of raw replies, one per command in the order they come (before any table)

    async def start(self):
        self.server = await asyncio.start_server(self.handle, "127.0.0.1", self.port)

    async def handle(self, reader, writer):
        self.writers.append(writer)
        orig_write = writer.write

        def logged_write(data):
            self.sent += bytes(data)
            orig_write(data)
        writer.write = logged_write
        writer.write(self.replies.get("greeting", b"220 hi\r\n"))
        pending_data = asyncio.Queue()

        async def on_data(r, w):
            self.data_writers.append(w)
            await pending_data.put((r, w))

        while True:
            try:
                line = await reader.readline()
            except Exception:
                break
            if not line:
                break
            text = line.decode("utf-8", "replace").rstrip("\r\n")
            verb, _, arg = text.partition(" ")
            verb = verb.upper()
            self.commands.append(text)
            if self.script:
                writer.write(self.script.pop(0))
                continue
            if text in self.replies_by_line:
                writer.write(self.replies_by_line[text])
                continue
            if verb in ("EPSV", "PASV") and verb not in self.replies:
                if self.passive is None:
                    self.passive = await asyncio.start_server(on_data, "127.0.0.1", 0)
                p = self.passive.sockets[0].getsockname()[1]
                if verb == "EPSV":
                    writer.write(f"229 ok (|||{p}|)\r\n".encode())
                else:
                    writer.write(f"227 ok (127,0,0,1,{p >> 8},{p & 255})\r\n".encode())
                continue
            if verb in ("EPSV", "PASV"):
                if self.passive is None:
                    self.passive = await asyncio.start_server(on_data, "127.0.0.1", 0)
                p = self.passive.sockets[0].getsockname()[1]
                writer.write(self.replies[verb].replace(b"{port}", str(p).encode())
                             .replace(b"{p1}", str(p >> 8).encode()).replace(b"{p2}", str(p & 255).encode()))
                continue
            if verb in ("LIST", "MLSD", "RETR", "STOR") and verb not in self.replies:
                writer.write(b"150 go\r\n")
                try:
                    r, w = await asyncio.wait_for(pending_data.get(), 5)
                except asyncio.TimeoutError:
                    writer.write(b"425 no data connection\r\n")
                    continue
                if verb != "STOR":
                    w.write(self.listing_by_arg.get(arg, self.listing))
                else:
                    await r.read()
                w.close()
                if self.completion is not None:
                    writer.write(self.completion)
                continue
            if verb in self.replies:
                writer.write(self.replies[verb])
                continue
            default = {"USER": b"230 ok\r\n", "PASS": b"230 ok\r\n", "TYPE": b"200 ok\r\n", "PWD": b'257 "/"\r\n',
                       "QUIT": b"221 bye\r\n", "MLST": b"500 no\r\n", "CWD": b"250 ok\r\n", "MKD": b"257 ok\r\n",
                       "REST": b"350 ok\r\n"}
            writer.write(default.get(verb, b"500 what\r\n"))
            if verb == "QUIT":
                break
        writer.close()

    def owes_nothing(self):
        """True when every command received so far (and the greeting) has been answered by a *complete* final reply:
        a client that is still waiting then waits for something that will never come"""
        raw = self.sent
        finals, pos, cur = 0, 0, None
        while True:
            nl = raw.find(b"\n", pos)
            if nl < 0:
                break
            line = raw[pos:nl + 1].decode("utf-8", "replace").rstrip("\r\n")
            pos = nl + 1
            if cur is None:
                if len(line) > 3 and line[3] == "-" and line[:3].isdigit():
                    cur = line[:3]
                elif line[:3].isdigit() and (len(line) == 3 or line[3] == " "):
                    finals += 0 if line.startswith("1") else 1
                else:
                    return False            # not a well-formed reply: the client may legitimately be confused
            elif line[:3] == cur and line[3:4] in (" ", ""):
                finals += 0 if cur.startswith("1") else 1
                cur = None
        return cur is None and pos == len(raw) and finals >= len(self.commands) + 1

    def hang_up(self):
        """nothing more will ever be sent: close every connection (the client then sees end of stream)"""
        for w in self.writers + self.data_writers:
            try:
                w.close()
            except Exception:
                pass
        if self.passive is not None:
            self.passive.close()
        if self.server is not None:
            self.server.close()
