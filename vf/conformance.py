"""Binding the environment model to real asyncio (DESIGN.md §2.6).

1. differential transcripts: scripted sessions on the real selector loop over
   127.0.0.1 vs. SimLoop with 0 deviations;
2. asyncio.start_server cancellation profile (nothing bound / bound but
   cancelled / returned) on both loops;
3. FIN / write-after-close semantics on both loops.

A hard disagreement is an infrastructure error (the sim must never be blamed on
aioftp); a real-loop run that cannot be carried out (no loopback, timeouts under
load) is reported as skipped, never as a disagreement.
"""
import asyncio
import re
import socket

from . import backends
from .rig import Rig
from .world import World, Running

TREE = {"d": {"f": b"0123456789"}, "g": b"x", "e": {}}
SERVER_KW = {"block_size": 4, "wait_future_timeout": 5.0}
SHORT_WAIT = {"no-data-conn": 0.3}          # no data connection is ever made in this script, so no race with real time
SCRIPTS = {
    "pwd-syst": ["PWD", "SYST", "FOO", "TYPE I", "TYPE X"],
    "dirs": ["MKD x", "CWD x", "PWD", "CDUP", "RMD x", "DELE g", "DELE g", "MLST nope"],
    "rename": ["RNFR g", "RNTO h", "RNTO i", "RNFR nope"],
    "retr": ["EPSV", "@data", "RETR d/f"],
    "retr-rest": ["PASV", "@data", "REST 3", "RETR d/f"],
    "stor": ["EPSV", "@data", "STOR new", "@dsend 0123", "@dsend 45", "@dclose", "EPSV", "@data", "RETR new"],
    "appe": ["EPSV", "@data", "APPE g", "@dsend yz", "@dclose", "PASV", "@data", "RETR g"],
    "list-names": ["EPSV", "@data", "LIST"],
    "no-data-conn": ["EPSV", "RETR d/f", "PWD"],
    "pasv-twice": ["PASV", "@data", "PASV", "EPSV", "PWD"],
    "abor-nothing": ["ABOR", "EPSV", "@data", "ABOR"],
    "quit": ["PWD", "QUIT"],
    "login-fail": ["USER nobody-else", "PASS x", "PWD"],
    "epsv-arg": ["EPSV 1", "PWD"],
}


def _norm(replies):
    out = []
    for code, lines in replies:
        text = " ".join(lines)
        if code in ("227", "229"):
            text = re.sub(r"\d+", "N", text)
        out.append((code, text))
    return out


def _names(verb_line, raw):
    if verb_line.startswith("LIST"):
        return sorted(l.split(" ")[-1] for l in raw.decode().split("\r\n") if l)
    return raw


def _kw(name):
    kw = dict(SERVER_KW)
    if name in SHORT_WAIT:
        kw["wait_future_timeout"] = SHORT_WAIT[name]
    return kw


def sim_run(name):
    rig = Rig(tree=TREE, server_kwargs=_kw(name))
    try:
        rig.ev(0, "@connect")
        rig.ev(0, "USER anonymous")
        steps = []
        s = rig.sessions[0]
        for e in SCRIPTS[name]:
            r = rig.ev(0, e)
            steps.append(_norm(r or []))
        datas = [_names("LIST" if name == "list-names" else "", c.received if c.eof else b"<no-eof>")
                 for c in s.peer.conns[1:]]
        return {"steps": steps, "data": datas, "tree": rig.snapshot(), "closed": s.closed()}
    finally:
        rig.close()


class _Skip(Exception):
    pass


async def _read_replies(reader, n, timeout=5.0):
    out = []
    while len(out) < n:
        try:
            line = await asyncio.wait_for(reader.readline(), timeout)
        except asyncio.TimeoutError:
            raise _Skip("timeout waiting for a reply on the real loop")
        if not line:
            break
        s = line.decode().rstrip("\r\n")
        code, lines = s[:3], [s[4:]]
        if s[3:4] == "-":
            while True:
                l2 = (await asyncio.wait_for(reader.readline(), timeout)).decode().rstrip("\r\n")
                if l2[:3] == code and l2[3:4] in (" ", ""):
                    lines.append(l2[4:])
                    break
                lines.append(l2)
        out.append((code, lines))
    return out


async def _real_session(name, expect):
    import aioftp
    server = aioftp.Server([aioftp.User(base_path="/")], path_io_factory=aioftp.MemoryPathIO, **_kw(name))
    backends.populate_memory(server, TREE)
    try:
        await server.start("127.0.0.1", 0)
    except OSError as exc:
        raise _Skip(f"cannot listen on loopback: {exc}")
    try:
        host, port = server.address
        r, w = await asyncio.open_connection(host, port)
        await _read_replies(r, 1)
        w.write(b"USER anonymous\r\n")
        await _read_replies(r, 1)
        steps, datas = [], []
        data = None
        pasv_port = None
        for e, exp in zip(SCRIPTS[name], expect["steps"]):
            if e == "@data":
                data = await asyncio.open_connection(host, pasv_port)
                datas.append(data)
                await asyncio.sleep(0.05)
                steps.append([])
                continue
            if e.startswith("@dsend "):
                data[1].write(e[7:].encode())
                await data[1].drain()
                await asyncio.sleep(0.02)
                steps.append([])
                continue
            if e == "@dclose":
                data[1].close()
                steps.append(_norm(await _read_replies(r, len(exp))))
                continue
            w.write((e + "\r\n").encode())
            rep = await _read_replies(r, len(exp))
            for code, lines in rep:
                t = lines[-1]
                if code == "229":
                    pasv_port = int(t[t.rindex("|", 0, t.rindex("|")) + 1:t.rindex("|")])
                elif code == "227":
                    nums = t[t.index("(") + 1:t.index(")")].split(",")
                    pasv_port = (int(nums[4]) << 8) | int(nums[5])
            steps.append(_norm(rep))
        got = []
        for dr, dw in datas:
            try:
                got.append(await asyncio.wait_for(dr.read(), 3.0))
            except asyncio.TimeoutError:
                got.append(b"<no-eof>")
            except ConnectionError:
                got.append(b"")
        got = [_names("LIST" if name == "list-names" else "", g) for g in got]
        closed = False
        if expect["closed"]:
            closed = (await asyncio.wait_for(r.read(), 3.0)) == b""
        w.close()
        return {"steps": steps, "data": got, "tree": backends.snapshot_memory(server), "closed": closed}
    finally:
        await asyncio.wait_for(server.close(), 5.0)


def _real(name, sim):
    loop = asyncio.new_event_loop()
    try:
        return loop.run_until_complete(asyncio.wait_for(_real_session(name, sim), 60))
    finally:
        loop.close()


def _diff(name, sim, real):
    for field in ("steps", "data", "tree", "closed"):
        if sim[field] != real[field]:
            return {"script": name, "field": field, "sim": repr(sim[field])[:300], "real": repr(real[field])[:300]}
    return None


def differential():
    """returns (traces, disagreements, skipped).  A disagreement counts only if a second, fresh real-loop run
    disagrees in the same way (real time under load is not a verdict on the model)."""
    traces, bad, skipped = 0, [], []
    for name in SCRIPTS:
        sim = sim_run(name)
        try:
            d = _diff(name, sim, _real(name, sim))
            if d is not None:
                d2 = _diff(name, sim, _real(name, sim))
                if d2 is None:
                    d = None
                elif d2 != d:
                    skipped.append(f"{name}: unstable real-loop run")
                    continue
        except (_Skip, asyncio.TimeoutError, OSError, ConnectionError) as exc:
            skipped.append(f"{name}: {exc!r}")
            continue
        traces += 1
        if d is not None:
            bad.append(d)
    return traces, bad, skipped


# -- start_server cancellation profile --------------------------------------------
def _probe_port(port):
    s = socket.socket()
    s.settimeout(0.5)
    try:
        s.connect(("127.0.0.1", port))
        return True
    except OSError:
        return False
    finally:
        s.close()


def real_profile():
    out = []
    for i in range(0, 7):
        loop = asyncio.new_event_loop()
        try:
            sock = socket.socket()
            sock.bind(("127.0.0.1", 0))
            port = sock.getsockname()[1]
            sock.close()

            async def noop(r, w):
                w.close()

            async def main():
                t = asyncio.ensure_future(asyncio.start_server(noop, "127.0.0.1", port))
                for _ in range(i):
                    await asyncio.sleep(0)
                if t.done():
                    srv = t.result()
                    srv.close()
                    return "returned"
                t.cancel()
                try:
                    await t
                except asyncio.CancelledError:
                    pass
                return "cancelled"

            res = loop.run_until_complete(main())
            if res == "cancelled":
                res = "bound-but-cancelled" if _probe_port(port) else "not-bound"
            out.append(res)
        except OSError as exc:
            return None
        finally:
            loop.close()
    return out


def sim_profile():
    out = []
    for i in range(0, 7):
        w = World(patch=False)
        try:
            async def noop(r, wr):
                wr.close()

            async def main():
                t = asyncio.ensure_future(asyncio.start_server(noop, "127.0.0.1", 3000))
                for _ in range(i):
                    await asyncio.sleep(0)
                if t.done():
                    t.result().close()
                    return "returned"
                t.cancel()
                try:
                    await t
                except asyncio.CancelledError:
                    pass
                return "cancelled"

            res = w.run(main())
            if res == "cancelled":
                res = "bound-but-cancelled" if 3000 in w.net.listeners else "not-bound"
            out.append(res)
        finally:
            w.close()
    return out


# -- FIN / write-after-close ------------------------------------------------------------
async def _fin_semantics():
    """client closes; server reads -> b'' ; server then writes twice and drains -> exception family"""
    res = {}
    done = asyncio.get_running_loop().create_future()

    async def handler(r, w):
        try:
            res["read_after_fin"] = await r.read()
            w.write(b"a")
            await w.drain()
            await asyncio.sleep(0.05)
            try:
                w.write(b"b")
                await w.drain()
                await asyncio.sleep(0.05)
                w.write(b"c")
                await w.drain()
                res["write_after_close"] = "no-error"
            except ConnectionError as exc:
                res["write_after_close"] = "ConnectionError"
            w.close()
        finally:
            if not done.done():
                done.set_result(None)

    srv = await asyncio.start_server(handler, "127.0.0.1", 0)
    port = srv.sockets[0].getsockname()[1]
    r, w = await asyncio.open_connection("127.0.0.1", port)
    w.close()
    await asyncio.wait_for(done, 5)
    srv.close()
    return res


def fin_semantics():
    loop = asyncio.new_event_loop()
    try:
        real = loop.run_until_complete(_fin_semantics())
    except (OSError, asyncio.TimeoutError):
        real = None
    finally:
        loop.close()
    w = World(patch=False)
    try:
        sim = w.run(_fin_semantics())
    finally:
        w.close()
    return real, sim


def determinism():
    """one multi-session schedule executed twice: identical delivery traces"""
    from . import report

    def once():
        rig = Rig(tree=TREE, n_sessions=2, server_kwargs=dict(SERVER_KW))
        try:
            for i in range(2):
                rig.ev(i, "@connect")
                rig.ev(i, "USER anonymous")
            for e in SCRIPTS["stor"]:
                rig.ev(0, e)
                rig.ev(1, "PWD")
            return report.fp(rig.world.net.trace)
        finally:
            rig.close()
    return once(), once()


_CACHE = None


def preflight(part):
    """run once per process; adds to part.traces; appends to part.infra on a hard disagreement"""
    global _CACHE
    if _CACHE is None:
        traces, bad, skipped = differential()
        rp, sp = real_profile(), sim_profile()
        real_fin, sim_fin = fin_semantics()
        d1, d2 = determinism()
        infra = []
        for b in bad:
            infra.append(f"sim/real transcript disagreement: {b}")
        if rp is not None and sorted(rp) != sorted(sp):
            infra.append(f"start_server cancellation profile differs: real={rp} sim={sp}")
        if real_fin is not None and real_fin != sim_fin:
            infra.append(f"FIN/write-after-close semantics differ: real={real_fin} sim={sim_fin}")
        if d1 != d2:
            infra.append("determinism: the same schedule produced two different delivery traces")
        _CACHE = {"traces": traces + (1 if rp is not None else 0) + (1 if real_fin is not None else 0) + 1,
                  "infra": infra, "skipped": skipped, "profile": sp, "fin": sim_fin}
    part.traces += _CACHE["traces"]
    part.conf_infra = list(_CACHE["infra"])
    part.counters["conformance_traces"] = _CACHE["traces"]
    part.counters["conformance_skipped"] = len(_CACHE["skipped"])
    return _CACHE
