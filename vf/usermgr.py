"""A user manager that really suspends, as a custom AbstractUserManager backed by a database or a password hasher
running in an executor does.  Every operation first awaits an executor job (an environment event of SimNet, so
the explorer decides when it completes relative to network events and to other jobs) and then delegates to the
stock MemoryUserManager - the in-memory accounting itself stays atomic, so a correct server keeps every C03/C10
guarantee with it.
"""
import asyncio
import collections

OPS = ("get_user", "authenticate", "notify_logout")


def _named(name):
    def job():
        return None
    job.__name__ = "um_" + name
    return job


JOBS = {op: _named(op) for op in OPS}


def make_slow_manager(a, users, ops=OPS, delay=None, fail=None):
    """delay=None: suspend on an executor job (environment event); delay=seconds: sleep that long (virtual time);
    fail={"get_user": n}: the n-th call of that operation raises RuntimeError after its suspension (a database error)"""
    fail = dict(fail or {})
    class SlowUserManager(a.MemoryUserManager):
        def __init__(self, users):
            super().__init__(users)
            self.suspensions = collections.Counter()
            self.cancelled_in = collections.Counter()

        async def _suspend(self, op):
            if op in ops or op in fail:
                self.suspensions[op] += 1
            if op in ops:
                try:
                    if delay is not None:
                        await asyncio.sleep(delay)
                    else:
                        await asyncio.get_running_loop().run_in_executor(None, JOBS[op])
                except asyncio.CancelledError:
                    self.cancelled_in[op] += 1
                    raise
            if fail.get(op) is not None and self.suspensions[op] == fail[op]:
                raise RuntimeError(f"user database unavailable ({op})")

        async def get_user(self, login):
            await self._suspend("get_user")
            return await super().get_user(login)

        async def authenticate(self, user, password):
            await self._suspend("authenticate")
            return await super().authenticate(user, password)

        async def notify_logout(self, user):
            await self._suspend("notify_logout")
            return await super().notify_logout(user)

    return SlowUserManager(users)
