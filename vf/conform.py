"""Run a command history on the real server and compare every step with the
reference SessionModel (E2 driver).  DESIGN.md §3.2 / §4.1"""
from . import backends, model as M, report
from .rig import Rig

PAYLOAD = b"NEWDATA"      # 7 bytes = 2 blocks of 4
BLOCK = 4


class Conf:
    def __init__(self, users, tree, backend="memory", server_kwargs=None, payload=PAYLOAD, delay=0.0, window=65536):
        self.users = users            # list of model.UserSpec
        self.tree = tree              # nested dict
        self.backend = backend
        self.server_kwargs = dict(server_kwargs or {})
        self.server_kwargs.setdefault("block_size", BLOCK)
        self.server_kwargs.setdefault("wait_future_timeout", 1)
        self.payload = payload
        self.delay = delay
        self.window = window

    def aio_users(self, a, base):
        out = []
        for u in self.users:
            perms = [a.Permission(p, readable=r, writable=w) for p, r, w in u.perms] or None
            out.append(a.User(u.login, u.password, base_path=base, home_path=u.home, permissions=perms))
        return out

    def new_model(self):
        return M.SessionModel(self.users, backends.tree_to_snapshot(self.tree))

    def new_rig(self, chooser=None, spy=None, n_sessions=1):
        return Rig(chooser=chooser, backend=self.backend, tree=self.tree, users=self.aio_users, spy=spy,
                   n_sessions=n_sessions, server_kwargs=self.server_kwargs, delay=self.delay, window=self.window)


def parse_names(verb, raw):
    names = []
    for line in raw.decode("utf-8", "replace").split("\r\n"):
        if not line:
            continue
        if verb == "mlsd":
            names.append(line.partition(" ")[2])
        else:
            names.append(line.split(" ")[-1])
    return names


def digest(rig):
    """white-box digest of the (single) live connection; degrades to () on refactors"""
    try:
        conns = list(rig.server.connections.values())
        if not conns:
            return ("no-connection",)
        c = conns[0]
        out = []
        for name in ("current_directory", "rename_from", "restart_offset", "transfer_type", "logged"):
            f = c.get(name) if name in c else None
            out.append((name, str(f.result()) if f is not None and f.done() else None))
        for name in ("user", "passive_server", "data_connection"):
            out.append((name, name in c and c[name].done()))
        return tuple(out)
    except Exception:
        return ()


def step(rig, model, line, conf, i=0):
    """execute one symbol; returns (problems, observation)"""
    problems = []
    s = rig.sessions[i]
    verb = line.partition(" ")[0].lower()
    if line == "@data":
        if model.passive and not model.data:
            rig.ev(i, "@data")
        model.step("@data")
        return problems, {"codes": []}
    upload = verb in ("stor", "appe")
    had_data = model.data
    exp = model.step(line, conf.payload if upload else b"")
    r = rig.ev(i, line) or []
    codes = [c for c, _ in r]
    lines = [l for _, l in r]
    if upload and codes and codes[-1][:1] == "1" and s.data is not None and had_data:
        rig.ev(i, "@dsend " + conf.payload.decode("latin-1"))
        r2 = rig.ev(i, "@dclose") or []
        rig.collect()
        codes += [c for c, _ in r2]
        lines += [l for _, l in r2]
    obs = {"codes": codes}
    if hasattr(exp, "apply"):
        exp.apply(codes)
    # number, order and class/code of replies
    if len(codes) != len(exp.replies) or not all(M.matches(c, p) for c, p in zip(codes, exp.replies)):
        problems.append({"kind": "replies", "line": line, "got": codes, "expected": exp.replies})
        return problems, obs
    if exp.note.startswith("pwd:") and lines and lines[-1][-1] != '"' + exp.note[4:] + '"':
        problems.append({"kind": "pwd-text", "line": line, "got": lines[-1][-1], "expected": exp.note[4:]})
    if exp.note.startswith("mlst:") and exp.note != "mlst:/":
        name = exp.note[5:].rsplit("/", 1)[-1]
        body = lines[-1][1] if len(lines[-1]) > 1 else ""
        want_type = "dir" if model.is_dir(exp.note[5:]) else "file"
        if not body.endswith(" " + name) and not (name == "" and body.endswith(" ")) or f"Type={want_type};" not in body:
            problems.append({"kind": "mlst-text", "line": line, "got": body, "expected": [name, want_type]})
    # data
    alts = getattr(exp, "data_alts", None)
    if alts is not None:
        got = s.data.received if s.data is not None else None
        obs["data"] = got
        if got not in alts:
            problems.append({"kind": "download-data", "line": line, "got": repr(got), "expected": [repr(a) for a in alts]})
        elif s.data is not None and not s.data.eof:
            problems.append({"kind": "download-no-eof", "line": line})
    if exp.names is not None:
        got = parse_names(verb, s.data.received) if s.data is not None else None
        obs["names"] = got
        if got is None or sorted(got) != sorted(exp.names):
            problems.append({"kind": "listing-names", "line": line, "got": got, "expected": sorted(exp.names)})
    # tree
    snap = rig.snapshot()
    tree_alts = getattr(exp, "tree_alts", None)
    if tree_alts is not None:
        p = exp.upload_path
        cur = snap.get(p)
        if codes[-1].startswith("2"):
            if cur not in tree_alts:
                problems.append({"kind": "stored-content", "line": line, "got": repr(cur),
                                 "expected": [repr(a) for a in tree_alts]})
            if cur is not None:
                model.tree[p] = cur
        else:
            # allowed failure (restart offset into a missing file): nothing may have changed
            pass
    if snap != model.tree:
        diff = {k: (repr(snap.get(k, "<absent>")), repr(model.tree.get(k, "<absent>")))
                for k in set(snap) | set(model.tree) if snap.get(k, "<absent>") != model.tree.get(k, "<absent>")}
        problems.append({"kind": "tree", "line": line, "diff(got,model)": diff})
        model.tree = dict(snap)
    # the server ends a session only after QUIT or a reply that announces it (421)
    if s.closed() != exp.closed and not (s.closed() and "421" in codes):
        problems.append({"kind": "session-ended" if s.closed() else "session-not-ended", "line": line, "codes": codes})
    # white-box extras (skipped silently if the attributes disappear in a refactor)
    try:
        conns = list(rig.server.connections.values())
        if conns and not s.closed() and model.user is not None:
            c = conns[0]
            if "current_directory" in c and c["current_directory"].done():
                if str(c.current_directory) != model.cwd:
                    problems.append({"kind": "cwd-state", "line": line, "got": str(c.current_directory),
                                     "expected": model.cwd})
            has_rn = "rename_from" in c and c["rename_from"].done()
            if has_rn != (model.rename_from is not None):
                problems.append({"kind": "pending-rename-state", "line": line, "got": has_rn,
                                 "expected": model.rename_from})
    except AttributeError:
        pass
    return problems, obs


def run_history(hist, conf, chooser=None, spy=None, stop_at_problem=True):
    rig = conf.new_rig(chooser=chooser, spy=spy)
    model = conf.new_model()
    problems = []
    obs_all = []
    try:
        rig.ev(0, "@connect")
        for k, line in enumerate(hist):
            pr, obs = step(rig, model, line, conf)
            obs_all.append(obs["codes"])
            for p in pr:
                p["history"] = list(hist[:k + 1])
            problems += pr
            if (pr and stop_at_problem) or rig.sessions[0].closed():
                break
        key = (model.key(), digest(rig))
        return {"problems": problems, "key": key, "model": model, "events": rig.world.net.n_events,
                "obs": obs_all, "closed": rig.sessions[0].closed(), "spy_calls": rig.spy.count}
    finally:
        rig.close()
