"""Run a command history on the real server and compare every step with the
reference SessionModel (E2 driver).  DESIGN.md §3.2 / §4.1"""
from . import backends, model as M, report
from .rig import Rig

PAYLOAD = b"NEWDATA"      # 7 bytes = 2 blocks of 4
BLOCK = 4


class Conf:
    def __init__(self, users, tree, backend="memory", server_kwargs=None, payload=PAYLOAD, delay=0.0, window=65536,
                 slow_manager=False):
        self.users = users            # list of model.UserSpec
        self.tree = tree              # nested dict
        self.backend = backend
        self.server_kwargs = dict(server_kwargs or {})
        self.server_kwargs.setdefault("block_size", BLOCK)
        self.server_kwargs.setdefault("wait_future_timeout", 1)
        self.payload = payload
        self.delay = delay
        self.window = window
        self.slow_manager = slow_manager      # users behind a suspending user manager (vf/usermgr.py)

    def aio_users(self, a, base):
        out = []
        for u in self.users:
            perms = [a.Permission(p, readable=r, writable=w) for p, r, w in u.perms] or None
            out.append(a.User(u.login, u.password, base_path=base, home_path=u.home, permissions=perms,
                              maximum_connections=u.maxconn))
        if self.slow_manager:
            from .usermgr import make_slow_manager
            return make_slow_manager(a, out)
        return out

    def new_model(self):
        return M.SessionModel(self.users, backends.tree_to_snapshot(self.tree))

    def new_rig(self, chooser=None, spy=None, n_sessions=1):
        return Rig(chooser=chooser, backend=self.backend, tree=self.tree, users=self.aio_users, spy=spy,
                   n_sessions=n_sessions, server_kwargs=self.server_kwargs, delay=self.delay, window=self.window)


def parse_names(verb, raw):
    names = []
    for line in raw.decode("utf-8", "replace").split("\r\n"):
        if not line:
            continue
        if verb == "mlsd":
            names.append(line.partition(" ")[2])
        else:
            names.append(line.split(" ")[-1])
    return names


def connection_of(rig, i=0):
    """the server's Connection object that belongs to scripted session i (white box; None if not found)"""
    try:
        mine = rig.sessions[i].ctl.t
        for c in rig.server.connections.values():
            if c.command_connection.writer.transport.peer is mine:
                return c
    except Exception:
        pass
    return None


def digest(rig):
    """white-box digest of session 0's live connection; degrades to () on refactors"""
    try:
        c = connection_of(rig, 0)
        if c is None:
            return ("no-connection",)
        out = []
        for name in ("current_directory", "rename_from", "restart_offset", "transfer_type", "logged"):
            f = c.get(name) if name in c else None
            out.append((name, str(f.result()) if f is not None and f.done() else None))
        for name in ("user", "passive_server", "data_connection"):
            out.append((name, name in c and c[name].done()))
        return tuple(out)
    except Exception:
        return ()


def step(rig, model, line, conf, i=0):
    """execute one symbol; returns (problems, observation)"""
    problems = []
    s = rig.sessions[i]
    verb = line.partition(" ")[0].lower()
    if line == "@data":
        if model.passive and not model.data:
            rig.ev(i, "@data")
        model.step("@data")
        return problems, {"codes": []}
    upload = verb in ("stor", "appe")
    had_data = model.data
    exp = model.step(line, conf.payload if upload else b"")
    r = rig.ev(i, line) or []
    codes = [c for c, _ in r]
    lines = [l for _, l in r]
    if upload and codes and codes[-1][:1] == "1" and s.data is not None and had_data:
        rig.ev(i, "@dsend " + conf.payload.decode("latin-1"))
        r2 = rig.ev(i, "@dclose") or []
        rig.collect()
        codes += [c for c, _ in r2]
        lines += [l for _, l in r2]
    obs = {"codes": codes}
    if hasattr(exp, "apply"):
        exp.apply(codes)
    # number, order and class/code of replies
    if len(codes) != len(exp.replies) or not all(M.matches(c, p) for c, p in zip(codes, exp.replies)):
        problems.append({"kind": "replies", "line": line, "got": codes, "expected": exp.replies})
        return problems, obs
    if exp.note.startswith("pwd:") and lines and lines[-1][-1] != '"' + exp.note[4:] + '"':
        problems.append({"kind": "pwd-text", "line": line, "got": lines[-1][-1], "expected": exp.note[4:]})
    if exp.note.startswith("mlst:") and exp.note != "mlst:/":
        name = exp.note[5:].rsplit("/", 1)[-1]
        body = lines[-1][1] if len(lines[-1]) > 1 else ""
        want_type = "dir" if model.is_dir(exp.note[5:]) else "file"
        if not body.endswith(" " + name) and not (name == "" and body.endswith(" ")) or f"Type={want_type};" not in body:
            problems.append({"kind": "mlst-text", "line": line, "got": body, "expected": [name, want_type]})
    # data
    alts = getattr(exp, "data_alts", None)
    if alts is not None:
        got = s.data.received if s.data is not None else None
        obs["data"] = got
        if got not in alts:
            problems.append({"kind": "download-data", "line": line, "got": repr(got), "expected": [repr(a) for a in alts]})
        elif s.data is not None and not s.data.eof:
            problems.append({"kind": "download-no-eof", "line": line})
    if exp.names is not None:
        got = parse_names(verb, s.data.received) if s.data is not None else None
        obs["names"] = got
        if got is None or sorted(got) != sorted(exp.names):
            problems.append({"kind": "listing-names", "line": line, "got": got, "expected": sorted(exp.names)})
    # tree
    snap = rig.snapshot()
    tree_alts = getattr(exp, "tree_alts", None)
    if tree_alts is not None:
        p = exp.upload_path
        cur = snap.get(p)
        if codes[-1].startswith("2"):
            if cur not in tree_alts:
                problems.append({"kind": "stored-content", "line": line, "got": repr(cur),
                                 "expected": [repr(a) for a in tree_alts]})
            if cur is not None:
                model.tree[p] = cur
        else:
            # allowed failure (restart offset into a missing file): nothing may have changed
            pass
    if snap != model.tree:
        diff = {k: (repr(snap.get(k, "<absent>")), repr(model.tree.get(k, "<absent>")))
                for k in set(snap) | set(model.tree) if snap.get(k, "<absent>") != model.tree.get(k, "<absent>")}
        problems.append({"kind": "tree", "line": line, "diff(got,model)": diff})
        model.tree = dict(snap)
    # the server ends a session only after QUIT or a reply that announces it (421)
    if s.closed() != exp.closed and not (s.closed() and "421" in codes):
        problems.append({"kind": "session-ended" if s.closed() else "session-not-ended", "line": line, "codes": codes})
    # white-box extras (skipped silently if the attributes disappear in a refactor)
    try:
        c = connection_of(rig, i)
        if c is not None and not s.closed() and model.user is not None:
            if "current_directory" in c and c["current_directory"].done():
                if str(c.current_directory) != model.cwd:
                    problems.append({"kind": "cwd-state", "line": line, "got": str(c.current_directory),
                                     "expected": model.cwd})
            has_rn = "rename_from" in c and c["rename_from"].done()
            if has_rn != (model.rename_from is not None):
                problems.append({"kind": "pending-rename-state", "line": line, "got": has_rn,
                                 "expected": model.rename_from})
    except AttributeError:
        pass
    return problems, obs


LATE_MID = ["CWD d", "CWD ..", "PWD", "REST 2", "RNFR g", "TYPE A", "MKD m", "SYST"]


def step_late(rig, model, verb_line, mid_line, conf, i=0):
    """transfer verb sent *before* the data connection exists, another command while the server waits for it, then
    the data connection: the transfer must use the path, permissions and offset as they were when the verb arrived"""
    problems = []
    s = rig.sessions[i]
    verb = verb_line.partition(" ")[0].lower()
    upload = verb in ("stor", "appe")
    if not model.logged or not model.passive or model.data:
        return [], {"codes": [], "skipped": True}
    model.data = True                      # the model binds the transfer at verb time
    exp = model.step(verb_line, conf.payload if upload else b"")
    started = len(exp.replies) == 2 and exp.replies[0][:1] == "1"
    if not started:
        model.data = False
    r = rig.ev(i, verb_line, advance=0) or []
    codes = [c for c, _ in r]
    if started and codes != [exp.replies[0]] and not M.matches((codes + ["000"])[0], exp.replies[0]):
        problems.append({"kind": "late-data-mark", "line": verb_line, "got": codes, "expected": exp.replies[:1]})
        return problems, {"codes": codes}
    if not started:
        if len(codes) != len(exp.replies) or not all(M.matches(c, p) for c, p in zip(codes, exp.replies)):
            problems.append({"kind": "replies", "line": verb_line, "got": codes, "expected": exp.replies})
        return problems, {"codes": codes}
    exp_mid = model.step(mid_line)
    r = rig.ev(i, mid_line, advance=0) or []
    mid_codes = [c for c, _ in r]
    if len(mid_codes) != len(exp_mid.replies) or not all(M.matches(c, p) for c, p in zip(mid_codes, exp_mid.replies)):
        problems.append({"kind": "replies", "line": mid_line + " (while a transfer waits for its data connection)",
                         "got": mid_codes, "expected": exp_mid.replies})
        return problems, {"codes": codes + mid_codes}
    fin = [c for c, _ in (rig.ev(i, "@data", advance=0) or [])]
    if upload and s.data is not None:
        fin += [c for c, _ in (rig.ev(i, "@dsend " + conf.payload.decode("latin-1"), advance=0) or [])]
        fin += [c for c, _ in (rig.ev(i, "@dclose", advance=0) or [])]
    rig.world.settle(0)
    fin += [c for c, _ in s.ctl.take_replies()]
    if not fin or not M.matches(fin[-1], exp.replies[1]) or len(fin) != 1:
        problems.append({"kind": "late-data-completion", "line": verb_line, "mid": mid_line, "got": fin,
                         "expected": exp.replies[1:]})
        return problems, {"codes": codes + mid_codes + fin}
    alts = getattr(exp, "data_alts", None)
    if alts is not None:
        got = s.data.received if s.data is not None else None
        if got not in alts:
            problems.append({"kind": "late-data-download", "line": verb_line, "mid": mid_line, "got": repr(got),
                             "expected": [repr(x) for x in alts]})
    if exp.names is not None:
        got = parse_names(verb, s.data.received) if s.data is not None else None
        import posixpath
        lp = getattr(exp, "list_path", None)
        now_names = sorted(posixpath.basename(c) for c in model.children(lp)) if lp and model.is_dir(lp) else []
        # the directory is addressed as at verb time; its contents may be read at verb time or at transfer time
        if got is None or (sorted(got) != sorted(exp.names) and sorted(got) != now_names):
            problems.append({"kind": "late-data-listing", "line": verb_line, "mid": mid_line, "got": got,
                             "expected": sorted(exp.names)})
    snap = rig.snapshot()
    tree_alts = getattr(exp, "tree_alts", None)
    if tree_alts is not None and fin[-1].startswith("2"):
        cur = snap.get(exp.upload_path)
        if cur not in tree_alts:
            problems.append({"kind": "late-data-stored", "line": verb_line, "mid": mid_line, "got": repr(cur),
                             "where": exp.upload_path, "expected": [repr(x) for x in tree_alts]})
        if cur is not None:
            model.tree[exp.upload_path] = cur
    if snap != model.tree and not problems:
        problems.append({"kind": "tree", "line": verb_line + " | " + mid_line, "got": sorted(snap), "model": sorted(model.tree)})
        model.tree = dict(snap)
    return problems, {"codes": codes + mid_codes + fin}


def run_history(hist, conf, chooser=None, spy=None, stop_at_problem=True):
    rig = conf.new_rig(chooser=chooser, spy=spy)
    model = conf.new_model()
    problems = []
    obs_all = []
    try:
        rig.ev(0, "@connect")
        for k, line in enumerate(hist):
            if line.startswith("LATE:"):
                v, _, m = line[5:].partition("|")
                pr, obs = step_late(rig, model, v, m, conf)
            else:
                pr, obs = step(rig, model, line, conf)
            obs_all.append(obs["codes"])
            for p in pr:
                p["history"] = list(hist[:k + 1])
            problems += pr
            if (pr and stop_at_problem) or rig.sessions[0].closed():
                break
        key = (model.key(), digest(rig))
        return {"problems": problems, "key": key, "model": model, "events": rig.world.net.n_events,
                "obs": obs_all, "closed": rig.sessions[0].closed(), "spy_calls": rig.spy.count}
    finally:
        rig.close()
