"""A server plus N scripted raw sessions inside one World; executes event lists.

Events are strings so that scripts are JSON-able:
  "@connect"            open the control connection
  "<FTP line>"          send the line (CRLF appended) and settle
  "@data"               connect to the last advertised passive port
  "@dsend <latin-1>"    send bytes on the data connection
  "@dclose"             close the data connection (FIN)
  "@dstop"              stop reading from the data connection (window closes, connection stays open)
  "@drop" / "@rst"      the peer closes / resets every socket it has
  "@cdrop"              the peer closes the control connection only
  "@wait <seconds>"     let virtual time pass
a trailing "!" = do not settle after the event (the next one follows at once)
"""
import pathlib

from . import backends
from .world import World, Session, Running


class Rig:
    def __init__(self, chooser=None, backend="memory", delay=0.0, delay_ops=None, tree=None, users=None,
                 n_sessions=1, window=65536, server_kwargs=None, spy=None, mtime=None, advance=None,
                 base="/", epoch0=None, max_iterations=200000, host="127.0.0.1", via_run=False, start_kwargs=None):
        kw = {} if epoch0 is None else {"epoch0": epoch0}
        self.world = World(chooser=chooser, window=window, max_iterations=max_iterations, **kw)
        a = self.world.aioftp
        self.spy = spy or backends.SpyControl()
        if delay:
            self.spy.delay = delay
            self.spy.delay_ops = delay_ops
        self.backend = backend
        self.tmp = None
        if backend in ("memory", "slow"):
            factory = backends.make_spy(a.MemoryPathIO, self.spy)
            self.base = pathlib.Path(base)
        else:
            self.tmp = backends.TempDir()
            self.base = self.tmp.path
            cls = a.PathIO if backend == "pathio" else a.AsyncPathIO
            factory = backends.make_spy(cls, self.spy)
        if users is None:
            users = [a.User(base_path=self.base)]
        else:
            users = users(a, self.base) if callable(users) else users
        skw = dict(server_kwargs or {})
        self.server = a.Server(users, path_io_factory=factory, **skw)
        self.spy.armed = False
        if tree is not None:
            if self.tmp is None:
                backends.populate_memory(self.server, tree, base=str(self.base), mtime=mtime)
            else:
                backends.populate_fs(self.base, tree, mtime=mtime)
        elif self.tmp is None and str(self.base) != "/":
            backends.populate_memory(self.server, {}, base=str(self.base))
        self.spy.armed = True
        self.run_task = None
        if via_run:
            # the documented one-call way: Server.run() = start + serve_forever, ended by cancelling it
            self.world.loop.current_owner = "server"
            act = self.world.loop.chooser.active
            self.world.loop.chooser.active = False
            self.run_task = self.world.spawn(self.server.run(host, 2121))
            self.world.settle(0)
            self.world.loop.chooser.active = act
        else:
            self.world.start_server(self.server, host=host, **(start_kwargs or {}))
        self.host = host
        self.sessions = [Session(self.world, name=f"p{i}", advance=advance, host=host) for i in range(n_sessions)]
        self.advance = advance

    def snapshot(self):
        if self.tmp is None:
            return backends.snapshot_memory(self.server, str(self.base))
        return backends.snapshot_fs(self.base)

    def ev(self, i, e, advance="default"):
        s = self.sessions[i]
        w = self.world
        settle = True
        if e.endswith("!"):
            e, settle = e[:-1], False
        r = None
        if s.ctl is not None:
            # replies that arrived while other sessions were being driven
            late = s.ctl.take_replies()
            if late:
                s.transcript.append(("<late>", late))
                self._track_passive(s, late)
        if e == "@connect":
            s.ctl = s.peer.connect(s.port, s.host)
        elif e.startswith("@connect-as "):
            # from the very address (host, port) session j's control connection has (had)
            other = self.sessions[int(e.split(" ")[1])]
            s.ctl = s.peer.connect(s.port, s.host, source_port=other.ctl.t.get_extra_info("sockname")[1])
        elif e in ("@data", "@data-other"):
            # (@data-other: the data connection comes from another address than the control connection)
            if s.pasv_port is None:
                return None
            try:
                with Running(w.loop):
                    s.data = s.peer.connect(s.pasv_port, s.host,
                                            source_host=None if e == "@data" else ("127.0.0.2" if ":" not in s.host else "::2"))
            except ConnectionRefusedError:
                s.data = None
        elif e.startswith("@dsend "):
            if s.data is not None:
                with Running(w.loop):
                    s.data.send(e[7:].encode("latin-1"))
        elif e == "@dstop":
            # the peer keeps the data connection open but stops reading from it (its receive window closes)
            if s.data is not None:
                s.data.stop_reading()
        elif e == "@dclose":
            if s.data is not None:
                with Running(w.loop):
                    s.data.close()
        elif e == "@cdrop":
            # only the control connection goes away; the data connection stays as it is
            if s.ctl is not None:
                with Running(w.loop):
                    s.ctl.close()
        elif e == "@drop":
            s.peer.vanish()
        elif e == "@rst":
            s.peer.vanish(reset=True)
        elif e.startswith("@wait "):
            w.settle(float(e[6:]))
            settle = False
        else:
            if s.ctl is None:
                return None
            s.send(e)
        if settle:
            w.settle(self.advance if advance == "default" else advance)
        if s.ctl is not None:
            r = s.ctl.take_replies()
            if r:
                s.transcript.append((e, r))
                self._track_passive(s, r)
        return r

    @staticmethod
    def _track_passive(s, r):
        for code, lines in r:
            try:
                if code == "229":
                    t = lines[-1]
                    a = t.rindex("|")
                    b = t.rindex("|", 0, a)
                    s.pasv_port = int(t[b + 1:a])
                elif code == "227":
                    t = lines[-1]
                    nums = t[t.index("(") + 1:t.index(")")].split(",")
                    s.pasv_port = (int(nums[4]) << 8) | int(nums[5])
            except (ValueError, IndexError):
                pass

    def run(self, events):
        """events: list of (session index, event string)"""
        out = []
        for i, e in events:
            out.append(self.ev(i, e))
        return out

    def collect(self):
        """pick up replies that arrived after later events"""
        for s in self.sessions:
            if s.ctl is not None:
                r = s.ctl.take_replies()
                if r:
                    s.transcript.append(("<late>", r))
                    self._track_passive(s, r)

    def close(self):
        try:
            self.world.close()
        finally:
            if self.tmp is not None:
                self.tmp.cleanup()

    def __enter__(self):
        return self

    def __exit__(self, *a):
        self.close()
