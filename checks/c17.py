"""C17 Concurrent sessions do not interfere with each other.

All interleavings (at script-event granularity) of every ordered pair of
scripts working on disjoint paths, same user and different users; plus
pairs fired without settling in between under <= d schedule deviations.
Oracle: each session's transcript, data and tree effects equal its solo run.
DESIGN.md §5 C17.
"""
import itertools
import json
import re

from vf import ledger, report, backends
from vf.explore import explore
from vf.rig import Rig
from vf.simloop import Chooser, ReplayDivergence

PID = "C17"
B = 4


BIG = 400


def tree():
    return {"a": {"f": b"AAAAaaaa11", "k": b"keep-a", "bigf": b"A" * BIG},
            "b": {"f": b"BBBBbbbb22", "k": b"keep-b", "bigf": b"B" * BIG}}


def scripts(d):
    """scripts parameterised by the session's own directory d ('a' or 'b')"""
    up = "up-" + d
    return {
        "cwd": [f"CWD /{d}", "PWD", "MKD sub", "CWD sub", "PWD", "CDUP", "PWD", "MLST f"],
        "upload": ["EPSV", "@data", f"STOR /{d}/new", f"@dsend {up}12", f"@dsend {up}34", "@dclose", f"MLST /{d}/new"],
        "download-rest": ["EPSV", "@data", "REST 2", f"RETR /{d}/f", "PWD"],
        "download-twice": ["PASV", "@data", f"RETR /{d}/f", "EPSV", "@data", f"RETR /{d}/k"],
        "rename": [f"RNFR /{d}/f", "PWD", f"RNTO /{d}/g", f"MLST /{d}/g"],
        "type-list": ["TYPE A", "PASV", "PASV", "@data", f"LIST /{d}"],
        "abort": ["EPSV", "@data", f"STOR /{d}/big", "@dsend 0123", "ABOR", "PWD"],
        "cut": ["EPSV", "@data", f"STOR /{d}/part", "@dsend xxxx", "@drop"],
        "appe": ["EPSV", "@data", f"APPE /{d}/k", f"@dsend +{d}", "@dclose", "EPSV", "@data", f"RETR /{d}/k"],
        "relogin": [f"CWD /{d}", "USER anonymous", "PWD", f"DELE /{d}/k"],
        "rest-pending": ["REST 3", "EPSV", "@data", f"RETR /{d}/f"],
        # a user with a connection limit of 2: a mistyped password and a second attempt, and a plain login
        "retry-login": ["USER bob", "PASS nope", "USER bob", "PASS pw", f"CWD /{d}", "PWD"],
        "login-bob": ["USER bob", "PASS pw", f"MLST /{d}/k", "PWD"],
        # transfers that take seconds under the shared speed limit of the throttled runs
        "big-upload": ["EPSV", "@data", f"STOR /{d}/big", "@dsend " + d * BIG, "@dclose", f"MLST /{d}/big"],
        "big-download": ["EPSV", "@data", f"RETR /{d}/bigf", "PWD"],
        "big-abort": ["EPSV", "@data", f"STOR /{d}/part", "@dsend " + d * (BIG // 2), "ABOR", "PWD"],
        "big-abort-retr": ["EPSV", "@data", f"RETR /{d}/bigf", "ABOR", "PWD"],
        "big-cut": ["EPSV", "@data", f"RETR /{d}/bigf", "@drop"],
        # sessions of the limited user that die in awkward ways: the control connection goes away while the data peer
        # stays connected without reading / while an upload is half-way / right after PASV
        "die-noread": ["USER bob", "PASS pw", "EPSV", "@data", "@dstop", f"RETR /{d}/bigf", "@cdrop"],
        "die-mid-stor": ["USER bob", "PASS pw", "EPSV", "@data", f"STOR /{d}/part", "@dsend xxxx", "@cdrop"],
        "die-after-pasv": ["USER bob", "PASS pw", "PASV", "@cdrop"],
        "die-list-noread": ["USER bob", "PASS pw", "PASV", "@data", "@dstop", f"LIST /{d}", "@cdrop"],
        # a server restricted to a few passive ports, all of them taken by somebody else's listener while this session
        # asks for one (it is turned away with 421); the ports are free again when the next session comes
        # a listing / download whose data peer does not read: the worker stays suspended in the middle of it
        "list-noread": ["PASV", "@data", "@dstop", f"LIST /{d}"],
        "retr-noread": ["EPSV", "@data", "@dstop", f"RETR /{d}/bigf"],
        # a backend call of this session does not return (a named pipe nobody reads, a dead network mount): the executor
        # backend keeps one of its threads busy with it - every other session goes on as if alone
        "stuck-call": ["EPSV", "@data", f"STOR /{d}/stuck-here"],
        "stuck-lookup": ["PWD", f"MLST /{d}/stuck-here"],
        "die-busy-pasv": ["@busy-on", "PASV", "@busy-off"],
        "die-busy-epsv": ["PWD", "@busy-on", "EPSV", "@busy-off"],
    }


NAMES = [n for n in scripts("a") if not n.startswith(("big-", "die-", "stuck-")) and not n.endswith("-noread")]


# The file-system backends take a file's times from the kernel's clock, which is not part of the simulated world (the
# memory backend's clock is: vf/world.py): the solo run and the paired run of a case happen at different instants of it,
# and so do the files each of them creates.  For those backends the time facts of MLSx replies and the date column of
# LIST lines are therefore compared as "a time" - everything else in the line (type, size, mode, links, name, which
# facts, in which order) still has to be the solo run's.
_TIME_FACT = re.compile(r"(?i)\b(modify|create)=\d{14}(\.\d+)?;")
_LS_DATE = re.compile(rb"(?m)^([-a-zA-Z]{10} \d+ \S+ \S+ \d+ )[A-Z][a-z]{2} [ \d]\d (?:[ \d]\d:\d\d| \d{4}) ")
REAL_FS = ("async", "pathio")


def norm(transcript, real_fs=False):
    out = []
    for ev, replies in transcript:
        for code, lines in replies:
            text = " ".join(lines)
            if code in ("227", "229"):
                text = re.sub(r"\d+", "N", text)
            if real_fs:
                text = _TIME_FACT.sub(lambda m: m.group(1) + "=T;", text)
            out.append((code, text))
    return out


def norm_data(chunks, real_fs=False):
    if not real_fs:
        return chunks
    return [_LS_DATE.sub(rb"\1T ", _TIME_FACT_B.sub(lambda m: m.group(1) + b"=T;", bytes(c))) for c in chunks]


_TIME_FACT_B = re.compile(rb"(?i)\b(modify|create)=\d{14}(\.\d+)?;")


def restrict(snap, d):
    return {k: v for k, v in snap.items() if k == "/" + d or k.startswith("/" + d + "/")}


def run_pair(case, chooser):
    """case: names (na, nb), order = list of 0/1 giving which session moves next, fire = bool (no settle between)"""
    sa, sb = scripts("a")[case["a"]], scripts("b")[case["b"]]
    solo = case.get("solo")     # 'a' / 'b' / None
    def users(a, base):
        ukw = {}
        if case.get("throttle") == "per-connection":
            # per-connection limits of one account: every session has its own budget
            ukw = {"read_speed_limit_per_connection": 200, "write_speed_limit_per_connection": 200}
        return [a.User(base_path=base, **ukw),
                a.User("bob", "pw", base_path=base, maximum_connections=case.get("bob_limit", 2))]

    skw = {"block_size": B, "wait_future_timeout": 1}
    if case.get("server_limit"):
        skw["maximum_connections"] = case["server_limit"]
    if case.get("data_ports"):
        skw["data_ports"] = list(case["data_ports"])
    if case.get("throttle"):
        # a server-wide limit shared by both sessions (virtual time: costs nothing); events are then fired with a frozen
        # clock so that both sessions' transfers really wait on the shared throttle at the same time
        if case["throttle"] == "per-connection":
            skw.update(wait_future_timeout=1000)
        else:
            skw.update(read_speed_limit=200, write_speed_limit=200, wait_future_timeout=1000)
    rig = Rig(chooser=chooser, n_sessions=2, tree=tree(), window=case.get("window", 65536), users=users,
              server_kwargs=skw,
              backend=case.get("backend", "memory"), delay=case.get("delay", 0.0))
    try:
        w = rig.world
        if case.get("stuck"):
            w.net.stuck = lambda job, _name=case["stuck"]: _name in repr(getattr(job.func, "args", ()))     # noqa
        chooser.active = False
        connected = [False, False]
        for i in range(2):
            if (solo is None or solo == "ab"[i]) and not (case.get("b_connects_late") and i == 1):
                rig.ev(i, "@connect")
                rig.ev(i, "USER anonymous")
                connected[i] = True
        chooser.active = case.get("explore", False)
        ia = ib = 0
        order = case["order"]
        for n, who in enumerate(order):
            if who == 0:
                e, ia = sa[ia], ia + 1
            else:
                e, ib = sb[ib], ib + 1
            if solo is not None and solo != "ab"[who]:
                continue
            if not connected[who]:
                # this session appears only now (after the other one has gone)
                rig.ev(who, "@connect")
                rig.ev(who, "USER anonymous")
                connected[who] = True
            if e in ("@busy-on", "@busy-off"):
                class Foreign:
                    closed = False
                for port in case.get("data_ports", ()):
                    if e == "@busy-on":
                        w.net.listeners[port] = Foreign()
                    elif isinstance(w.net.listeners.get(port), Foreign) or type(w.net.listeners.get(port)).__name__ == "Foreign":
                        del w.net.listeners[port]
                continue
            # fired: the two sessions act in the same instant (A's event is not settled before B's)
            if case.get("fire") and who == 0 and n + 1 < len(order) and order[n + 1] == 1:
                e += "!"
            if case.get("throttle"):
                base_e = e.rstrip("!")
                urgent = base_e in ("ABOR", "@drop") or base_e.startswith("@")
                if not urgent and not base_e.startswith(("EPSV", "PASV", "STOR", "RETR", "APPE")):
                    w.settle()          # an ordinary command is sent only after the session got its pending replies
                rig.ev(who, e, advance=0.5)
            else:
                rig.ev(who, e)
        w.settle()
        rig.collect()
        chooser.active = False
        res = {}
        snap = rig.snapshot()
        real_fs = case.get("backend") in REAL_FS
        for i, d in enumerate("ab"):
            s = rig.sessions[i]
            res[d] = {"transcript": norm(s.transcript, real_fs), "tree": restrict(snap, d),
                      "data": norm_data([c.received for c in s.peer.conns[1:]], real_fs)}
            # how long each transfer took: arrival time of its completion reply minus arrival time of its 150 mark
            res[d]["spans"] = transfer_spans(s.ctl) if s.ctl is not None else []
        # a PathIO instance knows the Connection it works for (custom backends read it): every backend call on a
        # session's own directory must come from that session's instance
        ports = {}
        for i, d in enumerate("ab"):
            s = rig.sessions[i]
            if s.ctl is not None:
                ports[d] = s.ctl.t.get_extra_info("sockname")[1]
        wrong = []
        for (op, pth), owner in zip(rig.spy.calls, rig.spy.owners):
            if pth is None:
                continue
            d = pth.split("/")[1] if pth.startswith("/") and len(pth) > 1 else None
            if d in ports and owner != ports[d]:
                wrong.append([op, pth, owner, ports[d]])
        res["misattributed"] = wrong[:3]
        res["trace"] = report.fp(w.net.trace)
        res["events"] = w.net.n_events
        return res
    finally:
        rig.close()


def run_samepath(case, chooser):
    """two users with different base directories and different permissions use the *same virtual paths*: alice (rw,
    base /ra) and bob (read-only, base /rb) both work in /w"""
    sa, sb = scripts("w")[case["a"]], scripts("w")[case["b"]]
    solo = case.get("solo")

    def users(a, base):
        return [a.User("alice", None, base_path=base / "ra"),
                a.User("bob", None, base_path=base / "rb", permissions=[a.Permission("/", readable=True, writable=False)])]

    t = tree()["a"]
    rig = Rig(chooser=chooser, n_sessions=2, tree={"ra": {"w": dict(t)}, "rb": {"w": dict(t)}}, users=users,
              server_kwargs={"block_size": B, "wait_future_timeout": 1})
    try:
        w = rig.world
        chooser.active = False
        for i, login in enumerate(("alice", "bob")):
            if solo is None or solo == "ab"[i]:
                rig.ev(i, "@connect")
                rig.ev(i, "USER " + login)
        ia = ib = 0
        for who in case["order"]:
            if who == 0:
                e, ia = sa[ia], ia + 1
            else:
                e, ib = sb[ib], ib + 1
            if solo is not None and solo != "ab"[who]:
                continue
            rig.ev(who, e)
        w.settle()
        rig.collect()
        res = {}
        snap = rig.snapshot()
        for i, (d, root) in enumerate((("a", "ra"), ("b", "rb"))):
            s = rig.sessions[i]
            res[d] = {"transcript": norm(s.transcript), "tree": restrict(snap, root),
                      "data": [c.received for c in s.peer.conns[1:]]}
        res["trace"] = report.fp(w.net.trace)
        res["events"] = w.net.n_events
        return res
    finally:
        rig.close()


def flat(tr):
    """order-insensitive view for fired runs: multiset of replies in order per session is still expected"""
    return tr


def orders(na, nb):
    for pos in itertools.combinations(range(na + nb), na):
        o = [1] * (na + nb)
        for p in pos:
            o[p] = 0
        yield o


def transfer_spans(conn):
    """[(final code, seconds between the 150 mark and the final reply)] from the arrival times of the control bytes"""
    total = bytes(conn.p.total)
    times, off = [], 0
    for t, n in conn.p.recv_log:
        times.append((off + n, t))
        off += n

    def when(pos):
        for end, t in times:
            if pos < end:
                return t
        return times[-1][1] if times else 0.0

    out, pos, mark = [], 0, None
    for line in total.split(b"\r\n"):
        end = pos + len(line) + 1
        code = line[:3].decode("latin-1")
        if line[3:4] == b" " and code.isdigit():
            if code == "150":
                mark = when(end)
            elif mark is not None and code in ("226", "426", "451", "425", "200"):
                out.append((code, round(when(end) - mark, 6)))
                mark = None
        pos = end + 1
    return out


def compare(res, solo_a, solo_b, fire, only=None, spans=False):
    problems = []
    if spans:
        for d, solo in (("a", solo_a), ("b", solo_b)):
            if only is not None and d != only:
                continue
            got, want = res[d].get("spans"), solo[d].get("spans")
            if got is not None and want is not None and len(got) == len(want) and \
                    any(gc != xc or abs(g - x) > 0.05 + 0.02 * x for (gc, g), (xc, x) in zip(got, want)):
                problems.append({"kind": "transfer-duration-differs-from-solo", "session": d, "got": got, "solo": want})
    if res.get("misattributed"):
        problems.append({"kind": "backend-instance-of-another-session", "calls(op, path, owner port, session port)":
                         res["misattributed"]})
    for d, solo in (("a", solo_a), ("b", solo_b)):
        if only is not None and d != only:
            continue
        got, want = res[d], solo[d]
        if fire:
            # replies may be read later than in the solo run but their sequence must be the same
            if [x for x in got["transcript"]] != [x for x in want["transcript"]]:
                problems.append({"kind": "transcript-differs-from-solo", "session": d,
                                 "got": got["transcript"][-6:], "solo": want["transcript"][-6:]})
        elif got["transcript"] != want["transcript"]:
            problems.append({"kind": "transcript-differs-from-solo", "session": d,
                             "got": got["transcript"][-6:], "solo": want["transcript"][-6:]})
        if got["data"] != want["data"]:
            problems.append({"kind": "data-differs-from-solo", "session": d, "got": repr(got["data"]),
                             "solo": repr(want["data"])})
        gt, wt = dict(got["tree"]), dict(want["tree"])
        for k_ in list(gt):
            # how much of an *aborted* upload was stored before the abort landed legitimately depends on how the shared
            # bandwidth was divided: only the prefix relation is required for that one file
            if k_.endswith("/part") and k_ in wt and isinstance(gt[k_], bytes) and isinstance(wt[k_], bytes) \
                    and (gt[k_].startswith(wt[k_]) or wt[k_].startswith(gt[k_])):
                gt.pop(k_)
                wt.pop(k_)
        if gt != wt:
            problems.append({"kind": "tree-differs-from-solo", "session": d, "got": repr(got["tree"])[:300],
                             "solo": repr(want["tree"])[:300]})
    return problems


def _work(item):
    mode, na, nb, extra = item
    part = report.Partial()
    la, lb = len(scripts("a")[na]), len(scripts("b")[nb])
    seq = [0] * la + [1] * lb
    base = {"a": na, "b": nb, **extra}
    runner = run_samepath if mode == "samepath" else run_pair
    solo_a = runner({**base, "order": seq, "solo": "a"}, Chooser())
    solo_b = runner({**base, "order": seq, "solo": "b"}, Chooser())
    try:
        if mode == "samepath":
            for o in orders(la, lb):
                case = {**base, "order": o}
                res = run_samepath(case, Chooser())
                part.evaluations += 1
                part.traces += 1
                part.transitions += res["events"]
                part.states.add(res["trace"])
                part.nontrivial.add(res["trace"])
                for p in compare(res, solo_a, solo_b, False):
                    part.violation({"kind": p["kind"], "pair": [na, nb], "same_virtual_paths": True},
                                   {"problem": p, "order": o}, replay={"samepath": case})
                    break
        elif mode == "stuck":
            # session A first (it hangs in its backend call), then the whole of session B
            case = {**base, "order": seq, "stuck": "stuck-here"}
            res = run_pair(case, Chooser())
            part.evaluations += 1
            part.traces += 1
            part.transitions += res["events"]
            part.states.add(res["trace"])
            part.nontrivial.add(res["trace"])
            for p in compare(res, solo_a, solo_b, False, only="b"):
                part.violation({"kind": p["kind"], "pair": [na, nb], "stuck_backend_call": True},
                               {"problem": p}, replay={"case": case, "choices": [], "kinds": []})
                break
        elif mode == "after":
            # session A dies; *afterwards* session B must find everything as if A had never existed (limits of 1)
            case = {**base, "order": seq, "explore": True}
            bound, kinds = extra.get("bound", 1), ["early", "order"]
            for ch, res in explore(lambda c: run_pair(case, c), bound, kinds=kinds, max_exec=extra.get("cap", 1500)):
                if ch is None:
                    part.caps.append({"pair": [na, nb], "cap": extra.get("cap", 1500)})
                    break
                part.evaluations += 1
                part.traces += 1
                part.transitions += res["events"]
                part.states.add(res["trace"])
                part.nontrivial.add(res["trace"])
                part.counters[f"after_dev{ch.deviations}"] += 1
                for p in compare(res, solo_a, solo_b, True, only="b"):
                    part.violation({"kind": p["kind"], "pair": [na, nb], "after_death": True},
                                   {"problem": p, "choices": ch.choices},
                                   replay={"case": case, "choices": ch.choices, "kinds": kinds})
                    break
        elif mode == "interleave":
            for o in orders(la, lb):
                case = {**base, "order": o}
                res = run_pair(case, Chooser())
                part.evaluations += 1
                part.traces += 1
                part.transitions += res["events"]
                part.states.add(res["trace"])
                if 0 < sum(1 for x, y in zip(o, o[1:]) if x != y):
                    part.nontrivial.add(res["trace"])
                part.outcomes[report.fp([res["a"]["transcript"], res["b"]["transcript"]])] += 1
                if part.evaluations == 2:
                    part.sample({"pair": [na, nb], "order": o}, limit=1)
                for p in compare(res, solo_a, solo_b, False):
                    part.violation({"kind": p["kind"], "pair": [na, nb]}, {"problem": p, "order": o},
                                   replay={"case": case, "choices": [], "kinds": []})
                    break
        else:
            # fired: strict alternation, no settle between command lines, all schedules with <= d deviations
            o = []
            ia = ib = 0
            while ia < la or ib < lb:
                if ia < la:
                    o.append(0)
                    ia += 1
                if ib < lb:
                    o.append(1)
                    ib += 1
            case = {**base, "order": o, "fire": True, "explore": True}
            bound, kinds = extra.get("bound", 1), ["early", "order", "batch"]
            for ch, res in explore(lambda c: run_pair(case, c), bound, kinds=kinds, max_exec=extra.get("cap", 1500)):
                if ch is None:
                    part.caps.append({"pair": [na, nb], "cap": extra.get("cap", 1500)})
                    break
                part.evaluations += 1
                part.traces += 1
                part.transitions += res["events"]
                part.states.add(res["trace"])
                part.nontrivial.add(res["trace"])
                part.counters[f"fired_dev{ch.deviations}"] += 1
                if ch.deviations:
                    part.sample({"pair": [na, nb], "fired": True, "choices": ch.choices}, limit=1)
                for p in compare(res, solo_a, solo_b, True, only=extra.get("victim"),
                                 spans=extra.get("throttle") == "per-connection"):
                    part.violation({"kind": p["kind"], "pair": [na, nb], "fired": True},
                                   {"problem": p, "choices": ch.choices},
                                   replay={"case": case, "choices": ch.choices, "kinds": kinds})
                    break
    except ReplayDivergence as exc:
        part.infra.append(f"replay divergence {na}/{nb}: {exc}")
    return part


def _standstill_child(conn, na, nb, extra, src):
    import sys
    sys.path.insert(0, src)
    _work(("interleave", na, nb, extra))          # (what the sessions see is compared elsewhere; here: does it return)
    conn.send("done")


def standstill(tier):
    """two sessions whose transfers are suspended half-way (lock-step data connections, or a speed limit) at the same
    time: if one of them can bring the whole process to a standstill (a lock held across an await), the case never
    returns - each pair runs in a child process with a wall-clock budget"""
    import multiprocessing as mp
    import os
    import aioftp
    src = os.path.dirname(os.path.dirname(aioftp.__file__))
    part = report.Partial()
    ctx = mp.get_context("fork")
    budget = 90.0
    for na, nb in (("list-noread", "type-list"), ("list-noread", "list-noread"), ("retr-noread", "type-list"),
                   ("list-noread", "download-rest"), ("type-list", "type-list"), ("upload", "type-list")):
        for extra in ({"window": 1}, {"window": 1, "backend": "async"}, {"throttle": "per-connection"}):
            parent, child = ctx.Pipe()
            proc = ctx.Process(target=_standstill_child, args=(child, na, nb, extra, src), daemon=True)
            proc.start()
            part.evaluations += 1
            k = report.fp(["standstill", na, nb, extra])
            part.states.add(k)
            part.nontrivial.add(k)
            if not parent.poll(budget):
                proc.kill()
                proc.join()
                part.violation({"kind": "the-whole-server-stands-still", "pair": [na, nb]},
                               {"pair": [na, nb], "extra": extra, "budget_s": budget}, replay={"standstill": [na, nb, extra]})
                continue
            parent.recv()
            proc.join()
    return part


def build_items(tier):
    items = []
    pairs = list(itertools.product(NAMES, NAMES))
    for na, nb in pairs:
        la, lb = len(scripts("a")[na]), len(scripts("b")[nb])
        if tier == "quick" and la + lb > 12:
            continue
        items.append(("interleave", na, nb, {}))
    fired = [("upload", "download-rest"), ("abort", "upload"), ("cut", "download-twice"), ("cwd", "rename"),
             ("type-list", "appe"), ("relogin", "rest-pending"), ("upload", "upload"), ("rename", "rename")]
    if tier != "quick":
        fired = pairs
    for na, nb in fired:
        items.append(("fired", na, nb, {"bound": 1, "cap": 1500 if tier == "quick" else 20000}))
    # the same instant, with a backend that really suspends in every call: the other session's command is dispatched
    # while this session's handler is still on its way (a restart offset, a rename source, ... travel with the handler)
    slow_fired = [("download-rest", "cwd"), ("rest-pending", "cwd"), ("download-rest", "rest-pending"),
                  ("rest-pending", "download-rest"), ("download-rest", "rename"), ("rest-pending", "upload"),
                  ("appe", "rest-pending"), ("rename", "download-rest")]
    if tier != "quick":
        slow_fired = [(x, y) for x in NAMES for y in NAMES if "rest" in x or "rest" in y]
    for na, nb in slow_fired:
        items.append(("fired", na, nb, {"bound": 1, "cap": 1500 if tier == "quick" else 6000, "backend": "slow",
                                        "delay": 0.125}))
    for na in ("stuck-call", "stuck-lookup"):
        for nb in ("cwd", "upload", "download-twice", "type-list", "rename"):
            items.append(("stuck", na, nb, {"backend": "async"}))
    # per-connection limits of one account are per session: a big transfer takes as long next to another one as alone
    # (measured on downloads, whose pace is the server's alone: 150 mark to completion reply)
    for na, nb in (("big-download", "big-download"), ("big-download", "big-upload"), ("big-download", "big-abort"),
                   ("big-download", "big-cut")):
        items.append(("fired", na, nb, {"bound": 0, "cap": 3000, "throttle": "per-connection", "victim": "a"}))
    # two users with different base directories and permissions on the same virtual paths
    for na, nb in (("cwd", "cwd"), ("rename", "rename"), ("upload", "upload"), ("cwd", "rename"), ("upload", "cwd"),
                   ("appe", "download-rest")):
        la, lb = len(scripts("w")[na]), len(scripts("w")[nb])
        if la + lb <= 14:
            items.append(("samepath", na, nb, {}))
    # a session of a user with a connection limit of 1 dies in an awkward way; the next session of that user (and of
    # the server: limit 2 = this one plus the dead one) must behave exactly as if alone
    for na in ("die-noread", "die-mid-stor", "die-after-pasv", "die-list-noread"):
        for nb in ("login-bob", "retry-login", "upload"):
            items.append(("after", na, nb, {"bound": 1, "cap": 3000, "bob_limit": 1, "server_limit": 1, "window": 1,
                                            "b_connects_late": True}))
    # a session that is turned away because every passive port is busy; the next session must find the whole pool
    for na in ("die-busy-pasv", "die-busy-epsv"):
        for nb in ("upload", "download-twice", "type-list"):
            for ports in ([30001], [30001, 30002]):
                items.append(("after", na, nb, {"bound": 1, "cap": 3000, "data_ports": ports, "b_connects_late": True}))
    # the same under a speed limit shared by the two sessions: one session aborts / is cut / quits while the other's
    # transfer is waiting on the shared throttle
    for na in ("big-abort", "big-abort-retr", "big-cut", "big-upload"):
        for nb in ("big-upload", "big-download"):
            # when a mid-transfer abort / cut lands is a matter of timing, which the other session legitimately
            # changes by using bandwidth: only the session that does *not* abort is compared with its solo run
            items.append(("fired", na, nb, {"bound": 0 if tier == "quick" else 1, "cap": 3000, "throttle": True,
                                            "victim": "b"}))
            items.append(("fired", nb, na, {"bound": 0, "cap": 3000, "throttle": True, "victim": "a"}))
        if tier != "quick":
            items.append(("fired", na, nb, {"bound": 1, "cap": 20000, "backend": "slow", "delay": 0.125, "window": 1}))
    return items


def run(tier, seed, t0):
    items = build_items(tier)
    if seed:
        k = seed % len(items)
        items = items[k:] + items[:k]
    part = report.merge_all(report.pmap(_work, items) + [standstill(tier)])
    if len(part.states) < 2:
        part.infra.append("vacuous: fewer than 2 distinct interleavings")
    bounds = {"scripts": NAMES, "pairs": "all ordered pairs" if tier != "quick" else "all ordered pairs with <= 12 events",
              "interleavings": "all merges of the two event lists (settling between events)",
              "fired": "alternating, no settle between command lines, <= 1 deviation (early/order/batch)",
              "throttled": "8 pairs of multi-second transfers x both orders under a server-wide read/write limit shared by the sessions",
              "standstill": "pairs with LIST / RETR / STOR suspended half-way in both sessions at once (lock-step window, executor backend, per-connection limits), each in a child process with a 90 s wall-clock budget",
              "busy_passive_ports": "a session turned away with 421 while every configured passive port is busy, then the next session (pools of 1 and 2 ports)",
              "cases": len(items)}
    return report.finish(
        PID, tier, seed, "model_checking", part, t0,
        rule="case = ordered pair of scripts on disjoint directories; every merge of their event lists is executed on one "
             "real server; non-trivial = merge with at least one switch between the sessions (or a fired run); distinct "
             "by delivery-trace hash; oracle = solo run of each script",
        bounds=bounds,
        assumptions=["environment model SimLoop/SimNet", "passive port numbers are normalised (they depend on allocation order)"])


def replay(path):
    data = json.loads(open(path).read())
    rp = data["replay"]
    if "standstill" in rp:
        import multiprocessing as mp
        import os
        import aioftp
        na, nb, extra = rp["standstill"]
        ctx = mp.get_context("fork")
        parent, child = ctx.Pipe()
        proc = ctx.Process(target=_standstill_child, daemon=True,
                           args=(child, na, nb, extra, os.path.dirname(os.path.dirname(aioftp.__file__))))
        proc.start()
        alive = parent.poll(90.0)
        if not alive:
            proc.kill()
        print(json.dumps({"pair": [na, nb], "extra": extra, "returned_within_90s": bool(alive)}))
        return 0 if alive else 1
    if "samepath" in rp:
        case = rp["samepath"]
        la, lb = len(scripts("w")[case["a"]]), len(scripts("w")[case["b"]])
        seq = [0] * la + [1] * lb
        solo_a = run_samepath({**case, "order": seq, "solo": "a"}, Chooser())
        solo_b = run_samepath({**case, "order": seq, "solo": "b"}, Chooser())
        pr = compare(run_samepath(case, Chooser()), solo_a, solo_b, False)
        print(json.dumps(pr, indent=1, default=repr))
        return 1 if pr else 0
    case = rp["case"]
    la, lb = len(scripts("a")[case["a"]]), len(scripts("b")[case["b"]])
    seq = [0] * la + [1] * lb
    base = {k: v for k, v in case.items() if k not in ("order", "fire", "explore")}
    solo_a = run_pair({**base, "order": seq, "solo": "a"}, Chooser())
    solo_b = run_pair({**base, "order": seq, "solo": "b"}, Chooser())
    res = run_pair(case, Chooser(rp["choices"], rp.get("kinds") or None))
    pr = compare(res, solo_a, solo_b, case.get("fire", False), only=case.get("victim"))
    print(json.dumps(pr, indent=1, default=repr))
    return 1 if pr else 0
