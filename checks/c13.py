"""C13 Backend failures are contained: 451, data channel closed, session lives on.

E1 fault enumeration: for every script of the corpus and every k, the k-th
backend call of the session raises OSError (single fault) or every call of
that operation kind from k on raises (repeated fault); a second healthy
session runs interleaved.  DESIGN.md §5 C13.
"""
import json

from vf import ledger, report, backends
from vf.explore import explore
from vf.rig import Rig
from vf.simloop import Chooser, ReplayDivergence
from checks import corpus

PID = "C13"
EXTRA_SCRIPTS = {
    "cwd": ["CWD d", "PWD"],
    "mkd-deep": ["MKD a/b/c"],
    "rename-dir": ["RNFR d", "RNTO d2"],
    "list-file": ["EPSV", "@data", "LIST g"],
    "mlsd-d": ["EPSV", "@data", "MLSD d"],
    "mlst-dir": ["MLST d"],
    "dele": ["DELE g"],
    "rmd": ["RMD e"],
    "stor-over": ["EPSV", "@data", "STOR g", "@dsend Z", "@dclose"],
    "appe-new": ["EPSV", "@data", "APPE n", "@dsend Z", "@dclose"],
}
# the data connection is opened first, other commands follow, the transfer comes last: a backend failure in one of the
# other commands must leave the waiting data connection alone (it belongs to the transfer)
PREOPENED = {
    "preopened-mkd-retr": ["EPSV", "@data", "MKD x", "RETR d/f"],
    "preopened-dele-stor": ["PASV", "@data", "DELE g", "CWD d", "STOR new", "@dsend 0123", "@dclose"],
    "preopened-mlst-list": ["EPSV", "@data", "MLST d", "RNFR g", "RNTO h", "LIST"],
}
# (the scripts that re-login while a transfer is under way are C12's: replies of the transfer and of the login
# commands interleave there, which this check's per-command attribution does not follow)
SCRIPTS = {k: v for k, v in corpus.SCRIPTS.items() if not k.endswith("-then-relogin")}
SCRIPTS.update(EXTRA_SCRIPTS)
SCRIPTS.update(PREOPENED)
OTHER_SCRIPT = ["EPSV", "@data", "RETR o", "PWD", "MLST o"]


def _is_cmd(e):
    return not e.startswith("@")


def run_fault(case, chooser):
    script = SCRIPTS[case["script"]]
    second = case.get("second", False)
    spy = backends.SpyControl()
    if case.get("close_value") is not None:
        spy.close_value = case["close_value"]          # a backend whose close() returns something truthy
    skw = dict(corpus.SERVER_KW)
    if case.get("encoding"):
        # the operating system's error text is localised and the server's encoding cannot represent it
        skw["encoding"] = case["encoding"]
        spy.fail_text = case["fail_text"]
    rig = Rig(chooser=chooser, n_sessions=2 if second else 1, tree=corpus.TREE, spy=spy, window=case.get("window", 65536),
              server_kwargs=skw, backend=case["backend"])
    problems = []
    try:
        w = rig.world
        chooser.active = False
        for i in range(len(rig.sessions)):
            rig.ev(i, "@connect")
            rig.ev(i, "USER anonymous")
        spy.only_instance = 0
        spy.count = 0
        spy.calls = []
        import aioftp as _a

        def _bare(*args):
            # aioftp.PathIOError() raised by the plug-in itself: no reason triple, as a third-party backend may do
            return backends.Bare("backend says no")

        spy.fail_exc = {"OSError": OSError, "TimeoutError": TimeoutError, "ValueError": ValueError,
                        "KeyError": KeyError, "RuntimeError": RuntimeError, "PathIOError": _bare,
                        "ConnectionError": ConnectionResetError}[case.get("exc", "OSError")]
        if case["mode"] == "single":
            spy.fail_at = case["k"]
        elif case["mode"] == "repeat":
            spy.fail_from, spy.fail_op = case["k"], case["op"]
        chooser.active = True
        s0 = rig.sessions[0]
        cmd_start = None         # transcript index where the affected command's replies begin
        affected = None
        other_i = 0
        for idx, e in enumerate(script):
            n_before = len(s0.transcript)
            if _is_cmd(e.rstrip("!")):
                cur_cmd, cur_start = e.rstrip("!"), n_before
            rig.ev(0, e)
            if second and other_i < len(OTHER_SCRIPT):
                rig.ev(1, OTHER_SCRIPT[other_i])
                other_i += 1
            if spy.failed and affected is None:
                affected, cmd_start = cur_cmd, cur_start
                if case["mode"] == "single" and case["script"] not in PREOPENED:
                    break
        chooser.active = False
        w.settle()
        rig.collect()
        if second:
            while other_i < len(OTHER_SCRIPT):
                rig.ev(1, OTHER_SCRIPT[other_i])
                other_i += 1
        ncalls = spy.count
        if affected is None:
            return {"problems": [], "faulted": False, "calls": ncalls, "trace": report.fp(w.net.trace),
                    "events": w.net.n_events, "outcome": "no-fault", "callnames": [c[0] for c in spy.calls]}
        got = [c for _, r in s0.transcript[cmd_start:] for c, _ in r]
        first_cmd_codes = []
        # replies that belong to the affected command: everything until the next command of the script was sent
        for ev_name, r in s0.transcript[cmd_start:]:
            if _is_cmd(ev_name) and ev_name != affected and ev_name != "<late>":
                break
            first_cmd_codes += [c for c, _ in r]
        verb = affected.split(" ")[0].upper()
        fop = spy.failed[0][1]
        sig_base = {"script_verb": verb, "failed_op": fop, "mode": case["mode"]}
        finals = [c for c in first_cmd_codes if not c.startswith("1")]
        if verb == "ABOR" and finals[-2:] == ["451", "226"]:
            # the backend failed while the aborted transfer was winding up: 451 is the transfer's completion reply,
            # the 226 behind it answers the ABOR itself
            finals = finals[:-1]
        if "451" not in finals:
            problems.append({"kind": "no-451", "codes": first_cmd_codes, **sig_base})
        if any(c.startswith("2") for c in finals) and case["mode"] == "single":
            problems.append({"kind": "success-reply-after-backend-failure", "codes": first_cmd_codes, **sig_base})
        if len(finals) > 1 and case["mode"] == "single":
            problems.append({"kind": "more-than-one-final-reply", "codes": first_cmd_codes, **sig_base})
        if s0.closed() and "221" not in got:
            problems.append({"kind": "session-closed", "codes": got, **sig_base})
        if any(c.startswith("1") for c in first_cmd_codes):
            mine = [t for t in w.net.all_transports if t.side == "server" and t.peer is not None
                    and t.peer.side == s0.peer.name and t.accepted and t.held()
                    and t.get_extra_info("sockname")[1] != 2121]
            if mine:
                problems.append({"kind": "data-connection-left-open-after-451", "codes": first_cmd_codes, **sig_base})
        if case["script"] in PREOPENED and case["mode"] == "single":
            last = [e for e in script if _is_cmd(e)][-1]
            if affected != last:
                # the fault hit another command: the transfer for which the data connection was opened goes through
                tail = [c for ev_name, r in s0.transcript if ev_name == last or ev_name.startswith("@d") for c, _ in r]
                tail += [c for ev_name, r in s0.transcript[-1:] if ev_name == "<late>" for c, _ in r]
                if not ("150" in tail and "226" in tail):
                    problems.append({"kind": "waiting-data-connection-lost-by-another-commands-failure", "transfer": last,
                                     "codes": tail, **sig_base})
        if spy.leaked():
            problems.append({"kind": "file-handle-open", "paths": spy.leaked(), **sig_base})
        # the session stays usable
        if not s0.closed():
            r = rig.ev(0, "PWD")
            if [c for c, _ in (r or [])] != ["257"]:
                problems.append({"kind": "followup-pwd", "codes": [c for c, _ in (r or [])], **sig_base})
            if not (case.get("reuse_port") and s0.pasv_port is not None):
                rig.ev(0, "EPSV")
            # (reuse_port: no new PASV/EPSV - the data connection made earlier if the failed command never took it,
            # else a new one to the passive port the session already has)
            if case.get("reuse_port") == "reconnect" and s0.pasv_port is not None:
                # the client gives the data connection it had made up (whether the failed command used it or not) and
                # makes a new one to the same passive port, without asking for a new one
                if s0.data is not None:
                    rig.ev(0, "@dclose")
                rig.ev(0, "@data")
            elif not (case.get("reuse_port") and s0.data is not None and not s0.data.eof and not s0.data.received):
                rig.ev(0, "@data")
            r = rig.ev(0, "RETR /o")
            codes = [c for c, _ in (r or [])]
            if case["mode"] == "single":
                if codes != ["150", "226"] or s0.data is None or s0.data.received != corpus.OTHER:
                    problems.append({"kind": "followup-retr", "codes": codes, **sig_base})
            elif codes not in (["150", "226"], ["150", "451"], ["451"]):
                problems.append({"kind": "followup-retr", "codes": codes, **sig_base})
        if second:
            s1 = rig.sessions[1]
            tr = [[c for c, _ in r] for _, r in s1.transcript[2:]]
            if tr != case["solo"] or s1.data is None or s1.data.received != corpus.OTHER:
                problems.append({"kind": "other-session-disturbed", "transcript": tr, "solo": case["solo"], **sig_base})
        for s in rig.sessions:
            s.peer.vanish()
        w.settle(0)
        for p in ledger.released_problems(w, rig.server, spy=spy):
            problems.append({**p, **sig_base})
        for p in ledger.closed_problems(w, rig.server, spy=spy):
            problems.append({**p, **sig_base})
        return {"problems": problems, "faulted": True, "calls": ncalls, "trace": report.fp(w.net.trace),
                "events": w.net.n_events, "outcome": report.fp([verb, fop, first_cmd_codes]),
                "callnames": [c[0] for c in spy.calls]}
    finally:
        rig.close()


def run_burst(case, chooser):
    """a pipelining client: n commands that all fail in the backend plus PWD, written in one segment.  Every command
    must get its own 451, PWD its 257, and the session must go on."""
    spy = backends.SpyControl()
    rig = Rig(chooser=chooser, n_sessions=2, tree=corpus.TREE, spy=spy, server_kwargs=dict(corpus.SERVER_KW),
              backend=case["backend"])
    problems = []
    try:
        w = rig.world
        chooser.active = False
        for i in range(2):
            rig.ev(i, "@connect")
            rig.ev(i, "USER anonymous")
        spy.only_instance = 0
        spy.count = 0
        spy.fail_from, spy.fail_op = 1, case["op"]
        chooser.active = True
        n = case["n"]
        last = case.get("last", "PWD")
        if case.get("suspend"):
            # the failing operation first waits for an executor job (a file system that takes its time to fail)
            spy.op_job = {case["op"]}
            spy.job_first = True
        lines = [case["cmd"].format(i=i) for i in range(n)] + [last]
        s0 = rig.sessions[0]
        s0.send(("\r\n".join(lines) + "\r\n").encode())
        w.settle()
        chooser.active = False
        codes = [c for c, _ in s0.ctl.take_replies()]
        want = ["451"] * n + [{"PWD": "257", "QUIT": "221"}[last]]
        if sorted(codes) != sorted(want) or (last == "QUIT" and codes[-1:] != ["221"]):
            problems.append({"kind": "pipelined-failures-not-all-answered", "codes": codes, "expected": want})
        spy.fail_from = None
        if last != "QUIT":
            r = rig.ev(0, "PWD")
            if [c for c, _ in (r or [])] != ["257"]:
                problems.append({"kind": "followup-pwd", "codes": [c for c, _ in (r or [])]})
        r = rig.ev(1, "PWD")
        if [c for c, _ in (r or [])] != ["257"]:
            problems.append({"kind": "other-session-disturbed", "codes": [c for c, _ in (r or [])]})
        return {"problems": problems, "faulted": True, "calls": spy.count, "trace": report.fp(w.net.trace),
                "events": w.net.n_events, "outcome": report.fp(["burst", codes]), "callnames": []}
    finally:
        rig.close()


# failures that come from the operating system itself, through the stock backends' own code (nothing is overridden):
# /dev/full takes every write and fails when the data is really written out (for a buffered file: in flush or
# close), /proc/self/mem opens and fails in the first read
OS_TARGETS = {"full": "/dev/full", "mem": "/proc/self/mem"}
OS_CASES = [("STOR full", n) for n in (1, 100, 8192, 8193, 20000)] + [("APPE full", n) for n in (1, 100, 20000)] + \
           [("RETR mem", 0)]
# ... and a directory the server process may not read (the list step fails with EACCES; the check runs as root, so
# the effective user id is changed to "nobody" while the command is served)
OS_CASES_UNPRIVILEGED = [("LIST secret", 0), ("MLSD secret", 0), ("LIST", 0), ("RETR secret/a", 0), ("MLST secret/a", 0)]


def run_osfault(case, chooser):
    import os
    rig = Rig(chooser=chooser, n_sessions=1, tree=corpus.TREE, server_kwargs=dict(corpus.SERVER_KW), backend=case["backend"])
    problems = []
    try:
        w = rig.world
        for name, target in OS_TARGETS.items():
            os.symlink(target, str(rig.base / name))
        unpriv = (case["cmd"], case["size"]) in OS_CASES_UNPRIVILEGED
        if unpriv:
            if os.geteuid() != 0:
                return {"problems": [], "faulted": False}
            try:
                os.seteuid(65534)
                os.seteuid(0)
            except OSError:
                # (no such user id in this name space: the case cannot be set up here)
                return {"problems": [], "faulted": False}
            (rig.base / "secret").mkdir()
            (rig.base / "secret" / "a").write_bytes(b"a")
            os.chmod(rig.base / "secret", 0)
            q = rig.base
            while str(q).startswith("/dev/shm/") or str(q).startswith("/tmp/"):
                os.chmod(q, 0o755)
                q = q.parent
            if case["cmd"] == "LIST":
                os.chmod(rig.base, 0o311)
        rig.ev(0, "@connect")
        rig.ev(0, "USER anonymous")
        s = rig.sessions[0]
        for rest in ([] if not case.get("rest") else ["REST 3"]):
            rig.ev(0, rest)
        rig.ev(0, "EPSV")
        rig.ev(0, "@data")
        if unpriv:
            os.seteuid(65534)
        try:
            codes = [c for c, _ in (rig.ev(0, case["cmd"]) or [])]
        finally:
            if unpriv:
                os.seteuid(0)
                os.chmod(rig.base / "secret", 0o755)
                os.chmod(rig.base, 0o755)
        if case["cmd"].split(" ")[0] in ("RETR", "LIST", "MLSD", "MLST"):
            pass
        else:
            data = bytes(range(256)) * (case["size"] // 256 + 1)
            rig.ev(0, "@dsend " + data[:case["size"]].decode("latin-1"))
            rig.ev(0, "@dclose")
        codes += [c for c, _ in (s.ctl.take_replies() or [])]
        for _e, r in s.transcript[-3:]:
            pass
        allcodes = [c for e, r in s.transcript if e in (case["cmd"], "@dclose", "<late>") or e.startswith("@dsend") for c, _ in r]
        final = [c for c in allcodes if c[0] != "1"]
        sig_base = {"script_verb": case["cmd"].split(" ")[0], "failed_op": "os:" + (case["cmd"].split(" ") + ["."])[1], "mode": "os"}
        if any(c[0] == "2" for c in final):
            problems.append({"kind": "success-reply-after-backend-failure", "codes": allcodes, **sig_base})
        elif final not in (["451"], ["550"]) or (final == ["550"] and not unpriv):
            # (a path the server may not even look at can also be refused as not existing: 550)
            problems.append({"kind": "backend-failure-not-answered-451", "codes": allcodes, **sig_base})
        if any(c[0] == "1" for c in allcodes) and s.data is not None and not (s.data.closed_by_peer or s.data.t.closing):
            problems.append({"kind": "data-connection-left-open-after-backend-failure", "codes": allcodes, **sig_base})
        r = rig.ev(0, "PWD")
        if [c for c, _ in (r or [])] != ["257"]:
            problems.append({"kind": "session-unusable-after-backend-failure", "reply": r, **sig_base})
        rig.ev(0, "EPSV")
        rig.ev(0, "@data")
        r = rig.ev(0, "RETR d/f")
        if [c for c, _ in (r or [])] != ["150", "226"] or s.data is None or s.data.received != corpus.TREE["d"]["f"]:
            problems.append({"kind": "transfer-after-backend-failure-failed", "reply": r, **sig_base})
        return {"problems": problems, "faulted": True, "events": w.net.n_events, "trace": report.fp([w.net.trace, case]),
                "outcome": report.fp([allcodes]), "calls": 0, "callnames": []}
    finally:
        rig.close()


def _runner(case):
    return {"burst": run_burst, "os": run_osfault}.get(case.get("mode"), run_fault)


def solo_other(backend):
    rig = Rig(n_sessions=1, tree=corpus.TREE, server_kwargs=dict(corpus.SERVER_KW), backend=backend)
    try:
        rig.ev(0, "@connect")
        rig.ev(0, "USER anonymous")
        for e in OTHER_SCRIPT:
            rig.ev(0, e)
        return [[c for c, _ in r] for _, r in rig.sessions[0].transcript[2:]]
    finally:
        rig.close()


def _work(item):
    case, bound, kinds = item
    part = report.Partial()
    runner = _runner(case)
    try:
        for ch, res in explore(lambda c: runner(case, c), bound, kinds=kinds, max_exec=4000):
            if ch is None:
                part.caps.append({"case": case, "cap": 4000})
                break
            if not res["faulted"]:
                continue
            part.evaluations += 1
            part.traces += 1
            part.transitions += res["events"]
            part.states.add(res["trace"])
            part.nontrivial.add(res["trace"])
            part.outcomes[res["outcome"]] += 1
            part.counters[f"exec_dev{ch.deviations}"] += 1
            part.counters["mode_" + case["mode"]] += 1
            part.sample({"case": {k: v for k, v in case.items() if k != "solo"}, "choices": ch.choices}, limit=2)
            for p in res["problems"]:
                sig = {"kind": p["kind"], "verb": p.get("script_verb", case.get("cmd", "").split(" ")[0] or None),
                       "failed_op": p.get("failed_op", case.get("op")),
                       "mode": p.get("mode", case.get("mode")), "exc": case.get("exc", "OSError")}
                part.violation(sig, {"problem": p, "case": {k: v for k, v in case.items() if k != "solo"}},
                               replay={"case": case, "choices": ch.choices, "kinds": sorted(kinds or [])})
    except ReplayDivergence as exc:
        part.infra.append(f"replay divergence in {case}: {exc}")
    return part


def build_items(tier):
    items = []
    bound = 0 if tier == "quick" else 2
    kinds = ["early", "order"]
    backs = ["memory", "pathio"] if tier == "quick" else ["memory", "pathio", "async"]
    solos = {b: solo_other(b) for b in backs}
    for script in SCRIPTS:
        for backend in backs:
            base = {"script": script, "backend": backend, "mode": "none", "k": 0}
            res = run_fault(base, Chooser())
            K = res["calls"]
            names = res["callnames"]
            for k in range(1, K + 1):
                for second in (False, True):
                    if second and tier == "quick" and backend != "memory":
                        continue
                    case = {"script": script, "backend": backend, "mode": "single", "k": k, "second": second,
                            "solo": solos[backend]}
                    items.append((case, bound, kinds))
                # the follow-up transfer uses a fresh data connection to the *same* passive port
                if backend == "memory" and script in corpus.TRANSFER_SCRIPTS + ["stor-over", "appe-new", "list-file", "mlsd-d"]:
                    case = {"script": script, "backend": backend, "mode": "single", "k": k, "second": False,
                            "reuse_port": True}
                    items.append((case, bound, kinds))
                    items.append((dict(case, reuse_port="reconnect"), bound, kinds))
                # the failure carries the operating system's localised text, which the server's encoding cannot represent
                if backend == "memory" and script in corpus.TRANSFER_SCRIPTS + ["dirs", "rename", "mlst"]:
                    for enc in ("latin-1", "ascii"):
                        case = {"script": script, "backend": backend, "mode": "single", "k": k, "second": False,
                                "encoding": enc, "fail_text": "\u041e\u0448\u0438\u0431\u043a\u0430 \u0432\u0432\u043e\u0434\u0430/\u0432\u044b\u0432\u043e\u0434\u0430 \u2014 \u78c1\u76d8"}
                        items.append((case, bound, kinds))
                # a backend whose close() returns a value (the API leaves that open)
                if backend == "memory" and script in corpus.TRANSFER_SCRIPTS + ["stor-over", "appe-new", "abor-mid-stor"]:
                    case = {"script": script, "backend": backend, "mode": "single", "k": k, "second": False,
                            "close_value": True}
                    items.append((case, bound, kinds))
                # a backend may fail with any kind of exception (time-outs, value errors, ...)
                for exc in ("TimeoutError", "ValueError", "KeyError", "RuntimeError", "PathIOError", "ConnectionError"):
                    if tier == "quick" and backend != "memory":
                        continue
                    case = {"script": script, "backend": backend, "mode": "single", "k": k, "second": False,
                            "exc": exc}
                    items.append((case, 0, kinds))
                # repeated fault: first occurrence of each op kind
                if names[k - 1] not in names[:k - 1]:
                    case = {"script": script, "backend": backend, "mode": "repeat", "k": k, "op": names[k - 1],
                            "second": False}
                    items.append((case, 0, kinds))
            if tier != "quick" and backend == "memory":
                for k in range(1, K + 1):
                    case = {"script": script, "backend": backend, "mode": "single", "k": k, "second": False,
                            "window": 1}
                    items.append((case, bound, kinds))
    # bursts of pipelined failing commands (several tasks finish in the same dispatcher wake-up), with every
    # iteration order of the finished-task set
    for backend in backs:
        for cmd, op in (("MKD boom{i}", "mkdir"), ("MLST d/f", "stat"), ("DELE g", "is_file"), ("CWD d", "exists"),
                        ("RNFR g", "exists")):
            for n in (1, 2, 3, 6):
                items.append(({"mode": "burst", "script": "burst", "backend": backend, "cmd": cmd, "op": op, "n": n},
                              1, ["done", "early"]))
            # ... followed by QUIT instead of PWD, the failing call suspended in the backend meanwhile: every command
            # before the QUIT is answered before the 221
            if backend == "memory" and op in ("exists", "is_file", "stat"):
                for n in (1, 2):
                    items.append(({"mode": "burst", "script": "burst", "backend": backend, "cmd": cmd, "op": op, "n": n,
                                   "last": "QUIT", "suspend": True}, 1, ["done", "early", "order"]))
    # failures of the operating system under the stock backends
    for backend in ("pathio", "async"):
        for cmd, size in OS_CASES + OS_CASES_UNPRIVILEGED:
            for rest in (False, True):
                if rest and (cmd, size) in OS_CASES_UNPRIVILEGED:
                    continue
                items.append(({"mode": "os", "script": "os", "backend": backend, "cmd": cmd, "size": size, "rest": rest,
                               "op": "os:" + (cmd.split(" ") + ["."])[1]}, 0 if tier == "quick" else 1, kinds))
    return items


def run(tier, seed, t0):
    items = build_items(tier)
    if seed:
        k = seed % len(items)
        items = items[k:] + items[:k]
    part = report.merge_all(report.pmap(_work, items))
    bounds = {"scripts": len(SCRIPTS), "backends": ["memory", "pathio"] + ([] if tier == "quick" else ["async"]),
              "fault_positions": "every backend call k=1..K of the fault-free run of each script",
              "fault_modes": ["single (k-th call)", "repeated (every call of that operation kind from k on)"],
              "exception_kinds": ["OSError", "TimeoutError", "ValueError", "KeyError", "RuntimeError", "bare aioftp.PathIOError",
                                  "ConnectionResetError"],
              "deviation_bound": 0 if tier == "quick" else 2, "second_session": True, "cases": len(items)}
    return report.finish(
        PID, tier, seed, "fault_enumeration", part, t0,
        rule="case = (script, backend, fault position k, mode); executed on the real server in SimLoop; every counted "
             "execution contains an injected backend failure; distinct by delivery-trace hash",
        bounds=bounds,
        assumptions=["environment model SimLoop/SimNet", "a backend failure is an OSError raised inside the backend "
                     "operation (wrapped by aioftp's own universal_exception)"])


def replay(path):
    data = json.loads(open(path).read())
    rp = data["replay"]
    res = _runner(rp["case"])(rp["case"], Chooser(rp["choices"], rp.get("kinds") or None))
    print(json.dumps({"case": rp["case"], "choices": rp["choices"], "problems": res["problems"]}, indent=1, default=repr))
    return 1 if res["problems"] else 0
