"""C16 Configured timeouts bound how long a stalled peer can hold a session.

Exhaustive enumeration in virtual time: all 8 combinations of (idle_timeout,
socket_timeout, wait_future_timeout) in {None, value} x scripts x stall
position (after every script event) x stall kind (peer goes silent / stops
reading / never connects the data channel) + chatty sessions; release time
compared exactly with a timing reference.  DESIGN.md §5 C16.
"""
import itertools
import json

from vf import ledger, report, backends
from vf.explore import explore
from vf.rig import Rig
from vf.simloop import Chooser, ReplayDivergence
from vf.world import Running
from checks import corpus

PID = "C16"
IDLE, SOCK, WF = 30, 7, 3
GAP = 1.0
HORIZON = 400.0

SCRIPTS = {
    "login-only": [],
    "pwd": ["PWD"],
    "rename": ["RNFR g", "RNTO h"],
    "retr": ["EPSV", "@data", "RETR d/f"],
    "list": ["PASV", "@data", "LIST"],
    "mlsd": ["EPSV", "@data", "MLSD d"],
    "stor": ["EPSV", "@data", "STOR new", "@dsend 0123", "@dsend 4567", "@dclose", "PWD"],
    "appe": ["EPSV", "@data", "APPE g", "@dsend ab", "@dclose"],
    "stor-late-data": ["EPSV", "STOR new", "@data", "@dsend 0123", "@dclose"],
    "retr-no-data": ["EPSV", "RETR d/f", "PWD"],
    "stor-no-data": ["PASV", "STOR new"],
    "pasv-idle": ["PASV", "@data"],
    # the data peer stays connected but stops reading (the control connection is read normally)
    "retr-dstop": ["EPSV", "@data", "@dstop", "RETR d/f"],
    "list-dstop": ["PASV", "@data", "@dstop", "LIST"],
    "mlsd-dstop": ["EPSV", "@data", "@dstop", "MLSD d"],
    # a login command sent while a transfer is open (upload in progress / no data connection yet / data peer not reading)
    "stor-then-user": ["EPSV", "@data", "STOR new", "@dsend 0123", "USER anonymous", "PWD"],
    "nodata-then-user": ["EPSV", "RETR d/f", "USER anonymous"],
    "retr-dstop-then-user": ["EPSV", "@data", "@dstop", "RETR d/f", "USER anonymous"],
}
# sessions that end with QUIT while the peer does not read the replies (only the position after the QUIT is examined)
QUIT_SCRIPTS = {
    "quit": ["QUIT"],
    "pwd+quit-pipelined": ["PWD\r\nQUIT"],
    "pwd+syst+quit-pipelined": ["PWD\r\nSYST\r\nQUIT"],
    "retr-quit": ["EPSV", "@data", "RETR d/f", "QUIT"],
}
SCRIPTS.update(QUIT_SCRIPTS)
UPLOAD = ("STOR", "APPE")
DOWNLOAD = ("RETR", "LIST", "MLSD")


def reference(prefix, cfg, kind):
    """expected (release_time | None, [(time, code) expected extra replies]) for a peer that executes
    ``prefix`` (one event per GAP seconds, connect at t=0, USER at t=1) and then stalls."""
    idle, sock, wf = cfg
    t = 0.0
    t_last_cmd = 0.0          # the greeting: the first read starts at connect
    data = False
    upload = None              # time of last progress of an active upload
    dstopped = False           # the data peer has stopped reading
    stalled_download = None    # time a download started towards a data peer that does not read
    waiting = None             # (time the verb arrived) of a worker waiting for its data connection
    waiting_verb = None
    extra = []
    events = ["@connect", "USER anonymous"] + list(prefix)
    for n, e in enumerate(events):
        t = n * GAP
        if e == "@connect":
            continue
        if e == "@data":
            data = True
            if waiting is not None and (wf is None or t - waiting < wf):
                if waiting_verb in UPLOAD:
                    upload = t
                else:
                    data = False
                waiting = None
            continue
        if e == "@dstop":
            dstopped = True
            continue
        if e.startswith("@dsend"):
            if upload is not None:
                upload = t
            continue
        if e == "@dclose":
            upload = None
            data = False
            continue
        # a command line
        if waiting is not None and wf is not None and t - waiting >= wf:
            waiting = None
        t_last_cmd = t
        verb = e.split(" ")[0]
        if verb in UPLOAD + DOWNLOAD:
            if data:
                if verb in UPLOAD:
                    upload = t
                else:
                    data = False
                    if dstopped:
                        stalled_download = t
            else:
                waiting, waiting_verb = t, verb
    cands = []
    if idle is not None:
        cands.append(t_last_cmd + idle)
    if sock is not None and upload is not None:
        cands.append(upload + sock)
    if sock is not None and stalled_download is not None:
        # the first block cannot be written (lock-step window): the data connection has stopped moving at the verb
        cands.append(stalled_download + sock)
    if kind == "noread" and sock is not None:
        # the reply (and first data block) written at the last command stays unread
        cands.append(t_last_cmd + sock)
    release = min(cands) if cands else None
    if waiting is not None and wf is not None:
        t425 = waiting + wf
        if release is None or t425 < release:
            extra.append((t425, "425"))
    return release, extra


def run_stall(case, chooser):
    cfg = tuple(case["cfg"])
    idle, sock, wf = cfg
    script = SCRIPTS[case["script"]]
    prefix = script[:case["k"]]
    kind = case["kind"]
    spy = backends.SpyControl()
    users = None
    if case.get("slow_logout"):
        # a user manager whose logout notification takes 5 s (say, a database write): the stalled peer's sockets are
        # still to be closed at the bound, not 5 s later
        from vf.usermgr import make_slow_manager
        users = lambda a, base: make_slow_manager(a, [a.User(base_path=base)], ops=("notify_logout",), delay=5)  # noqa
    rig = Rig(chooser=chooser, n_sessions=1, tree=corpus.TREE, spy=spy, window=1, advance=0, users=users,
              server_kwargs={"block_size": 4, "idle_timeout": idle, "socket_timeout": sock,
                             "wait_future_timeout": wf})
    problems = []
    try:
        w = rig.world
        s = rig.sessions[0]
        chooser.active = case.get("explore", False)
        events = ["@connect", "USER anonymous"] + list(prefix)
        for n, e in enumerate(events):
            w.advance_to(n * GAP)
            if kind == "noread" and n == len(events) - 1 and n >= 1:
                with Running(w.loop):
                    for c in s.peer.conns:
                        c.stop_reading()
                    rig.ev(0, e + "!")
                    for c in s.peer.conns:
                        c.stop_reading()
                w.settle(0)
            else:
                rig.ev(0, e)
        t_stall = (len(events) - 1) * GAP
        exp_release, exp_extra = reference(prefix, cfg, kind)
        ctl_server = [t for t in w.net.all_transports if t.side == "server" and t.get_extra_info("sockname")[1] == 2121][0]
        seen_before = len(s.ctl.p.recv_log)
        w.settle(HORIZON)
        chooser.active = False
        closed_at = ctl_server.close_time
        sig = {"script": case["script"], "stall": kind, "cfg": list(cfg)}
        if case.get("slow_logout"):
            sig["slow_logout"] = True
        if exp_release is None:
            if closed_at is not None:
                problems.append({"kind": "released-although-no-timeout-applies", "at": closed_at})
        else:
            if closed_at is None:
                problems.append({"kind": "never-released", "expected": exp_release})
            elif closed_at < exp_release - 1e-9:
                problems.append({"kind": "released-too-early", "at": closed_at, "expected": exp_release})
            elif closed_at > exp_release + 1e-9:
                problems.append({"kind": "released-too-late", "at": closed_at, "expected": exp_release})
        # 425 exactly at verb + wait_future_timeout, session continues
        if kind != "noread":
            late = [(t, n) for t, n in s.ctl.p.recv_log[seen_before:]]
            replies = s.ctl.take_replies()
            codes425 = [c for c, _ in replies if c == "425"]
            if exp_extra:
                t425 = exp_extra[0][0]
                if not codes425:
                    problems.append({"kind": "no-425", "expected_at": t425})
                elif not any(abs(t - t425) < 1e-9 for t, n in late):
                    problems.append({"kind": "425-at-wrong-time", "expected_at": t425, "times": [t for t, n in late]})
            elif codes425 and "no-data" not in case["script"] and "late" not in case["script"]:
                problems.append({"kind": "unexpected-425"})
        # after the release: full clean-up (frozen clock)
        if closed_at is not None:
            for p in ledger.released_problems(w, rig.server, spy=spy):
                problems.append(p)
        for p in problems:
            p.update(sig)
        return {"problems": problems, "trace": report.fp(w.net.trace), "events": w.net.n_events,
                "outcome": report.fp([closed_at is None, None if closed_at is None else closed_at - t_stall])}
    finally:
        rig.close()


def run_chatty(cfg, periods=5):
    """a command every idle-1 seconds is never dropped for idleness; then silence => dropped at last + idle"""
    idle, sock, wf = cfg
    part = report.Partial()
    if idle is None:
        return part
    rig = Rig(n_sessions=1, tree=corpus.TREE, window=1, advance=0,
              server_kwargs={"block_size": 4, "idle_timeout": idle, "socket_timeout": sock, "wait_future_timeout": wf})
    try:
        w = rig.world
        s = rig.sessions[0]
        rig.ev(0, "@connect")
        rig.ev(0, "USER anonymous")
        t = 0.0
        cmds = ["PWD", "TYPE I", "SYST", "MLST d", "PWD"]
        for n in range(periods):
            t += idle - 1
            w.advance_to(t)
            r = rig.ev(0, cmds[n % len(cmds)])
            part.evaluations += 1
            if not r or s.closed():
                part.violation({"kind": "chatty-session-dropped", "cfg": list(cfg)}, {"at": t, "period": n})
                return part
        ctl_server = [x for x in w.net.all_transports if x.side == "server"][0]
        w.settle(HORIZON)
        if ctl_server.close_time is None or abs(ctl_server.close_time - (t + idle)) > 1e-9:
            part.violation({"kind": "idle-drop-after-chat", "cfg": list(cfg)},
                           {"at": ctl_server.close_time, "expected": t + idle})
        part.states.add(report.fp(["chatty", cfg]))
        part.nontrivial.add(report.fp(["chatty", cfg]))
        part.transitions += w.net.n_events
    finally:
        rig.close()
    return part


def run_throttled(case):
    """speed limits and timeouts together: the time the server itself sleeps for a speed limit is not the peer's
    silence - a peer that never stalls is never dropped, however slow the configured rate"""
    part = report.Partial()
    what = case["throttled"]
    skw = {"block_size": 4, "wait_future_timeout": WF}
    if what == "retr":
        skw.update(write_speed_limit_per_connection=1, socket_timeout=3)        # one block = a 4 s pause > 3 s
    elif what == "stor":
        skw.update(read_speed_limit_per_connection=1, socket_timeout=3)
    elif what == "chatty":
        skw.update(read_speed_limit_per_connection=10, idle_timeout=2)         # one command line = a 2-3 s pause
    elif what == "list":
        skw.update(write_speed_limit=2, socket_timeout=3)
    rig = Rig(n_sessions=1, tree=corpus.TREE, window=65536, server_kwargs=skw, advance=0)
    problems = []
    try:
        w = rig.world
        s = rig.sessions[0]

        def step(e, within, final=True):
            """send e; virtual time runs only until the server has answered (at most `within` seconds): the peer
            reacts at once, every pause is the server's own throttle"""
            r0 = rig.ev(0, e, advance=0) or []
            if e.startswith("@") and e != "@connect":
                return
            if any((not final) or c[:1] != "1" for c, _ in r0):
                return

            def answered():
                lines = [l for l in bytes(s.ctl.p.buf).split(b"\r\n")[:-1] if l[:3].isdigit() and l[3:4] == b" "]
                return any((not final) or l[:1] != b"1" for l in lines)
            w.settle(within, until=answered)

        def codes_since(n):
            rig.collect()
            return [c for _, rr in s.transcript[n:] for c, _ in rr]

        if what in ("retr", "stor", "list"):
            step("@connect", 2000)
            step("USER anonymous", 2000)
            step("EPSV", 2000)
            step("@data", 1)
            n0 = len(s.transcript)
            if what == "retr":
                step("RETR d/f", 2000)
                codes = codes_since(n0)
                if "226" not in codes or s.data is None or s.data.received != corpus.FILE:
                    problems.append({"kind": "throttled-transfer-cut-although-the-peer-never-stalled", "codes": codes,
                                     "received": None if s.data is None else len(s.data.received)})
            elif what == "list":
                step("LIST", 2000)
                codes = codes_since(n0)
                if "226" not in codes:
                    problems.append({"kind": "throttled-transfer-cut-although-the-peer-never-stalled", "codes": codes})
            else:
                step("STOR new", 2000, final=False)
                for chunk in ("0123", "4567", "89"):
                    step("@dsend " + chunk, 0)
                rig.ev(0, "@dclose", advance=0)
                w.settle(2000, until=lambda: b"226" in bytes(s.ctl.p.buf) or s.closed())
                codes = codes_since(n0)
                if "226" not in codes or rig.snapshot().get("/new") != b"0123456789":
                    problems.append({"kind": "throttled-transfer-cut-although-the-peer-never-stalled", "codes": codes,
                                     "stored": repr(rig.snapshot().get("/new"))})
            if s.closed():
                problems.append({"kind": "session-dropped-although-the-peer-never-stalled"})
            else:
                n1 = len(s.transcript)
                step("PWD", 2000)
                if "257" not in codes_since(n1):
                    problems.append({"kind": "followup-pwd", "codes": codes_since(n1)})
        else:
            step("@connect", 0)
            step("USER anonymous", 0)
            for i in range(6):
                w.advance_to(w.loop.time() + 1.0)
                step("MLST " + "d/../" * 4 + "d", 0)
            w.settle(1.5)
            rig.collect()
            n_replies = sum(1 for ev_, rr in s.transcript for c, _ in rr if c == "250")
            if s.closed():
                problems.append({"kind": "chatty-session-dropped", "replies": n_replies})
        part.evaluations += 1
        part.traces += 1
        part.transitions += w.net.n_events
        k = report.fp(["throttled", what])
        part.states.add(k)
        part.nontrivial.add(k)
        for p in problems[:1]:
            part.violation({"kind": p["kind"], "throttled": what}, {"problem": p, "server": skw}, replay={"case": case,
                           "choices": [], "kinds": []})
    finally:
        rig.close()
    return part


def run_tail(case):
    """a download whose end fits into the transport's write buffer while the data peer has stopped reading: the
    transfer is over for the server (226), the closing data socket still holds the unsent tail - if nothing of it is
    taken for socket_timeout the socket is given up, not kept for as long as the peer likes"""
    idle, sock, wf = case["cfg"]
    verb = case["verb"]
    part = report.Partial()
    spy = backends.SpyControl()
    rig = Rig(n_sessions=1, tree=corpus.TREE, spy=spy, window=4096, advance=0,
              server_kwargs={"block_size": 4, "idle_timeout": idle, "socket_timeout": sock, "wait_future_timeout": wf})
    problems = []
    try:
        w = rig.world
        w.net.sndbuf = case["sndbuf"]           # the kernel takes that much; the rest stays in the transport's buffer
        s = rig.sessions[0]
        for n, e in enumerate(["@connect", "USER anonymous", "EPSV", "@data", "@dstop"]):
            w.advance_to(n * GAP)
            rig.ev(0, e)
        t_verb = 5 * GAP
        w.advance_to(t_verb)
        r = rig.ev(0, verb)
        codes = [c for c, _ in (r or [])]
        data_t = [t for t in w.net.all_transports if t.side == "server" and t.get_extra_info("sockname")[1] != 2121]
        if codes not in (["150", "226"], ["150", "200"]) or len(data_t) != 1:
            problems.append({"kind": "tail-transfer-not-completed", "codes": codes})
        else:
            dt = data_t[0]
            if sock is not None:
                # keep the session itself alive (one command per second is well within idle_timeout)
                t = t_verb
                while t < t_verb + sock + 2:
                    t += GAP
                    w.advance_to(t)
                    if rig.ev(0, "PWD") is None or s.closed():
                        problems.append({"kind": "session-lost-after-tail-transfer", "at": t})
                        break
                if dt.held():
                    problems.append({"kind": "data-socket-kept-by-a-peer-that-does-not-read", "bound": t_verb + sock})
                elif dt.lost_time is not None and dt.lost_time < t_verb + sock - 1e-9:
                    problems.append({"kind": "data-socket-given-up-too-early", "at": dt.lost_time, "bound": t_verb + sock})
                elif dt.lost_time is not None and dt.lost_time > t_verb + sock + 1e-9:
                    problems.append({"kind": "data-socket-given-up-too-late", "at": dt.lost_time, "bound": t_verb + sock})
            else:
                # no bound configured: the peer may take its time - and gets every byte when it reads on
                w.advance_to(t_verb + 20)
                from vf.world import Running
                with Running(w.loop):
                    s.data.t.resume_reading()
                w.settle(0)
                want = {"RETR d/f": corpus.FILE}.get(verb)
                if want is not None and bytes(s.data.received) != want:
                    problems.append({"kind": "tail-lost-although-no-bound-is-configured", "got": bytes(s.data.received).decode("latin-1")})
                if dt.held():
                    problems.append({"kind": "data-socket-open-after-the-peer-took-everything"})
        part.evaluations += 1
        part.traces += 1
        part.transitions += w.net.n_events
        part.states.add(report.fp(["tail", case]))
        part.nontrivial.add(report.fp(["tail", case]))
        part.outcomes[report.fp(["tail", codes, [p["kind"] for p in problems]])] += 1
        for p in problems:
            part.violation({"kind": p["kind"], "script": "tail:" + verb, "stall": "noread", "cfg": list(case["cfg"])},
                           {"problem": p, "case": case}, replay={"case": case, "choices": [], "kinds": []})
    finally:
        rig.close()
    return part


def run_tail_idle(case):
    """no socket_timeout, idle_timeout set: a download is over for the server while its tail is still unsent (the data
    peer does not read), the peer may make another data connection, then says nothing more - when the session is
    dropped for idleness the data sockets go with it"""
    idle, sock, wf = case["cfg"]
    part = report.Partial()
    rig = Rig(n_sessions=1, tree=corpus.TREE, window=4096, advance=0,
              server_kwargs={"block_size": 4, "idle_timeout": idle, "socket_timeout": sock, "wait_future_timeout": wf})
    problems = []
    try:
        w = rig.world
        w.net.sndbuf = case["sndbuf"]
        s = rig.sessions[0]
        events = ["@connect", "USER anonymous", "EPSV", "@data", "@dstop", case["verb"]] + list(case.get("then", []))
        for n, e in enumerate(events):
            w.advance_to(n * GAP)
            rig.ev(0, e)
        t_last = (len([e for e in events if not e.startswith("@")]) and max(n for n, e in enumerate(events) if not e.startswith("@"))) * GAP
        data_t = [t for t in w.net.all_transports if t.side == "server" and t.get_extra_info("sockname")[1] != 2121]
        w.advance_to(t_last + idle + 2)
        held = [t.name for t in data_t if t.held()]
        if held:
            problems.append({"kind": "data-socket-outlives-the-session-dropped-for-idleness", "sockets": held,
                             "session_dropped_at": t_last + idle})
        conns = ledger.live_connections(rig.server)
        if conns:
            problems.append({"kind": "session-not-dropped-at-idle-timeout", "n": len(conns)})
        part.evaluations += 1
        part.traces += 1
        part.transitions += w.net.n_events
        part.states.add(report.fp(["tail-idle", case]))
        part.nontrivial.add(report.fp(["tail-idle", case]))
        part.outcomes[report.fp(["tail-idle", [p["kind"] for p in problems]])] += 1
        for p in problems:
            part.violation({"kind": p["kind"], "script": "tail-idle:" + case["verb"], "stall": "noread", "cfg": list(case["cfg"])},
                           {"problem": p, "case": case}, replay={"case": case, "choices": [], "kinds": []})
    finally:
        rig.close()
    return part


def run_trickle(case):
    """a download is blocked in one write (the block is larger than the transport's buffer limits); the data peer takes
    a few bytes of it - not enough for the writer to go on - and then nothing any more: the connection has stopped
    moving and is given up.  Both readings of 'after socket_timeout' are accepted (counted from the write that
    cannot complete / from the last byte the peer took); held beyond the later one is a violation."""
    idle, sock, wf = case["cfg"]
    part = report.Partial()
    spy = backends.SpyControl()
    rig = Rig(n_sessions=1, tree={"big": bytes(range(64, 128))}, spy=spy, window=16, advance=0,
              server_kwargs={"block_size": 64, "idle_timeout": idle, "socket_timeout": sock, "wait_future_timeout": wf})
    problems = []
    try:
        from vf.world import Running
        w = rig.world
        s = rig.sessions[0]
        for n, e in enumerate(["@connect", "USER anonymous", "EPSV", "@data", "@dstop"]):
            w.advance_to(n * GAP)
            rig.ev(0, e)
        t_verb = 5 * GAP
        w.advance_to(t_verb)
        r = rig.ev(0, "RETR big")
        codes = [c for c, _ in (r or [])]
        data_t = [t for t in w.net.all_transports if t.side == "server" and t.get_extra_info("sockname")[1] != 2121]
        if codes != ["150"] or len(data_t) != 1:
            problems.append({"kind": "trickle-transfer-not-blocked", "codes": codes})
        else:
            dt = data_t[0]
            t_last = t_verb
            for frac, nbytes in case["takes"]:
                t_take = t_verb + frac * sock
                w.advance_to(t_take)
                if not dt.held():
                    break
                with Running(w.loop):
                    if s.data.t.inbox and s.data.t.inbox[0][1] == "data":
                        w.net._deliver_net(s.data.t, nbytes)
                        t_last = t_take
                w.settle(0)
            t = w.loop.time()
            while t < t_last + sock + 2:
                t = (int(t / GAP) + 1) * GAP
                w.advance_to(t)
                if s.closed() or rig.ev(0, "PWD") is None:
                    break
            if dt.held():
                problems.append({"kind": "data-socket-kept-by-a-peer-that-has-stopped-reading", "bound": t_last + sock,
                                 "now": w.loop.time(), "taken": len(s.data.received)})
            elif dt.lost_time is not None and dt.lost_time < t_verb + sock - 1e-9:
                problems.append({"kind": "data-socket-given-up-too-early", "at": dt.lost_time, "bound": t_verb + sock})
            elif dt.lost_time is not None and dt.lost_time > t_last + sock + 1e-9:
                problems.append({"kind": "data-socket-given-up-too-late", "at": dt.lost_time, "bound": t_last + sock})
            if not problems:
                for p in ledger.closed_problems(w, rig.server, spy=spy, advance=0) if s.closed() else []:
                    problems.append(p)
        part.evaluations += 1
        part.traces += 1
        part.transitions += w.net.n_events
        part.states.add(report.fp(["trickle", case]))
        part.nontrivial.add(report.fp(["trickle", case]))
        part.outcomes[report.fp(["trickle", codes, [p["kind"] for p in problems]])] += 1
        for p in problems:
            part.violation({"kind": p["kind"], "script": "trickle", "stall": "noread", "cfg": list(case["cfg"])},
                           {"problem": p, "case": case}, replay={"case": case, "choices": [], "kinds": []})
    finally:
        rig.close()
    return part


def run_backlog(case):
    """a peer pipelines far more commands than it takes replies for (its receive window is closed from the start of the
    burst) and then says nothing more: the session is held no longer than the bounds say - idle_timeout after the last
    command, or socket_timeout after the first reply that cannot be written - however many replies are queued"""
    idle, sock, wf = case["cfg"]
    n = case["n"]
    part = report.Partial()
    rig = Rig(n_sessions=1, tree=corpus.TREE, window=64, advance=0,
              server_kwargs={"block_size": 4, "idle_timeout": idle, "socket_timeout": sock, "wait_future_timeout": wf})
    problems = []
    try:
        w = rig.world
        s = rig.sessions[0]
        for k, e in enumerate(["@connect", "USER anonymous"]):
            w.advance_to(k * GAP)
            rig.ev(0, e)
        t_burst = 2 * GAP
        w.advance_to(t_burst)
        ct = [t for t in w.net.all_transports if t.side == "server" and t.get_extra_info("sockname")[1] == 2121][0]
        with Running(w.loop):
            s.ctl.stop_reading()
            s.ctl.send(b"PWD\r\n" * n)
        w.settle(0)
        cands = [t_burst + x for x in (idle, sock) if x is not None]
        release = min(cands) if cands else None
        if release is None:
            w.advance_to(t_burst + 100)
            if not ct.held():
                problems.append({"kind": "session-dropped-although-no-bound-is-configured", "at": ct.lost_time})
        else:
            w.advance_to(release - 0.5)
            if not ct.held():
                problems.append({"kind": "released-too-early", "at": ct.lost_time, "bound": release})
            w.advance_to(release + 2)
            if ct.held():
                problems.append({"kind": "session-held-beyond-its-bound", "bound": release, "now": w.loop.time(),
                                 "queued_commands": n})
            else:
                conns = ledger.live_connections(rig.server)
                if conns:
                    problems.append({"kind": "connection-table-not-empty-after-release", "n": len(conns)})
        part.evaluations += 1
        part.traces += 1
        part.transitions += w.net.n_events
        part.states.add(report.fp(["backlog", case]))
        part.nontrivial.add(report.fp(["backlog", case]))
        part.outcomes[report.fp(["backlog", release is None, [p["kind"] for p in problems]])] += 1
        for p in problems:
            part.violation({"kind": p["kind"], "script": "backlog", "stall": "noread", "cfg": list(case["cfg"])},
                           {"problem": p, "case": case}, replay={"case": case, "choices": [], "kinds": []})
    finally:
        rig.close()
    return part


def run_two_waiting(case):
    """two transfer commands are waiting for a data connection and one connection is made: one transfer is served, the
    other one is answered 425 (it has no data connection) - and the session continues"""
    idle, sock, wf = case["cfg"]
    first, second = case["verbs"]
    part = report.Partial()
    rig = Rig(n_sessions=1, tree=corpus.TREE, window=65536, advance=0,
              server_kwargs={"block_size": 4, "idle_timeout": idle, "socket_timeout": sock, "wait_future_timeout": wf})
    problems = []
    try:
        w = rig.world
        s = rig.sessions[0]
        for e in ("@connect", "USER anonymous", "EPSV", first, second, "@data"):
            rig.ev(0, e)
        w.settle(1)
        if first.startswith("STOR") and s.data is not None:
            rig.ev(0, "@dsend abc")
            rig.ev(0, "@dclose")
        w.settle(1)
        rig.collect()
        codes = [c for _, r in s.transcript[3:] for c, _ in r]
        if s.closed():
            problems.append({"kind": "session-ended-without-a-reply", "codes": codes})
        elif sorted(codes) not in (sorted(["150", "150", "226", "425"]), sorted(["150", "226", "425"]), sorted(["150", "150", "200", "425"]),
                                   sorted(["150", "200", "425"])):
            problems.append({"kind": "two-waiting-transfers", "codes": codes})
        else:
            r = rig.ev(0, "PWD")
            if [c for c, _ in (r or [])] != ["257"]:
                problems.append({"kind": "session-not-usable-afterwards", "codes": [c for c, _ in (r or [])]})
        part.evaluations += 1
        part.traces += 1
        part.transitions += w.net.n_events
        k = report.fp(["two-waiting", case])
        part.states.add(k)
        part.nontrivial.add(k)
        for p in problems:
            part.violation({"kind": p["kind"], "script": "two-waiting", "stall": "late-data", "cfg": list(case["cfg"])},
                           {"problem": p, "case": case}, replay={"case": case, "choices": [], "kinds": []})
    finally:
        rig.close()
    return part


def _work(item):
    case, bound, kinds = item
    part = report.Partial()
    if case.get("throttled"):
        return run_throttled(case)
    if case.get("chatty"):
        return run_chatty(tuple(case["cfg"]))
    if case.get("tail"):
        return run_tail(case)
    if case.get("two_waiting"):
        return run_two_waiting(case)
    if case.get("trickle"):
        return run_trickle(case)
    if case.get("backlog"):
        return run_backlog(case)
    if case.get("tail_idle"):
        return run_tail_idle(case)
    try:
        for ch, res in explore(lambda c: run_stall(case, c), bound, kinds=kinds, max_exec=3000):
            if ch is None:
                part.caps.append({"case": case, "cap": 3000})
                break
            part.evaluations += 1
            part.traces += 1
            part.transitions += res["events"]
            part.states.add(res["trace"])
            part.nontrivial.add(res["trace"])
            part.outcomes[res["outcome"]] += 1
            part.sample({"case": case, "choices": ch.choices}, limit=1)
            for p in res["problems"]:
                part.violation({"kind": p["kind"], "script": p["script"], "stall": case["kind"], "cfg": p["cfg"],
                                **({"slow_logout": True} if case.get("slow_logout") else {})},
                               {"problem": p, "case": case},
                               replay={"case": case, "choices": ch.choices, "kinds": kinds})
    except ReplayDivergence as exc:
        part.infra.append(f"replay divergence {case}: {exc}")
    return part


def build_items(tier):
    items = [({"throttled": what}, 0, []) for what in ("retr", "stor", "chatty", "list")]
    cfgs = list(itertools.product((None, IDLE), (None, SOCK), (None, WF)))
    for cfg in cfgs:
        items.append(({"chatty": True, "cfg": list(cfg)}, 0, []))
        for verbs in (("RETR d/f", "RETR g"), ("LIST", "RETR g"), ("MLSD d", "LIST"), ("STOR new", "RETR g"), ("RETR g", "RETR g")):
            items.append(({"two_waiting": True, "cfg": list(cfg), "verbs": list(verbs)}, 0, []))
        for verb in ("RETR d/f", "LIST", "MLSD d"):
            for sndbuf in (0, 4, 6):
                items.append(({"tail": True, "cfg": list(cfg), "verb": verb, "sndbuf": sndbuf}, 0, []))
        for n in (40, 1500, 5000):
            items.append(({"backlog": True, "cfg": list(cfg), "n": n}, 0, []))
        if cfg[0] is not None and cfg[1] is None:
            for verb in ("RETR d/f", "LIST", "MLSD d"):
                for then in ([], ["@data"], ["@data", "LIST d"], ["PWD"], ["@data", "PWD", "@data"]):
                    for sndbuf in (0, 4):
                        items.append(({"tail_idle": True, "cfg": list(cfg), "verb": verb, "then": then, "sndbuf": sndbuf}, 0, []))
        if cfg[1] is not None:
            # the peer takes a little of a blocked write and then stops for good
            for takes in ([(0.5, 1)], [(0.25, 8)], [(0.75, 40)], [(0.25, 1), (0.5, 1)], [(0.5, 59)], []):
                items.append(({"trickle": True, "cfg": list(cfg), "takes": [list(x) for x in takes]}, 0, []))
        for name, script in QUIT_SCRIPTS.items():
            items.append(({"cfg": list(cfg), "script": name, "k": len(script), "kind": "noread"}, 0, []))
        for name, script in SCRIPTS.items():
            if name in QUIT_SCRIPTS:
                continue
            for k in range(0, len(script) + 1):
                items.append(({"cfg": list(cfg), "script": name, "k": k, "kind": "silent"}, 0, []))
                last = (["USER anonymous"] + script)[k]
                if not last.startswith("@"):
                    items.append(({"cfg": list(cfg), "script": name, "k": k, "kind": "noread"}, 0, []))
                # (not for the scripts that re-login in the middle: the 5 s the old login's logout notification takes
                # there are the server working on a command, not the peer being silent)
                if (cfg == (IDLE, SOCK, WF) or (tier != "quick" and cfg != (None, None, None))) and not name.endswith("-then-user"):
                    items.append(({"cfg": list(cfg), "script": name, "k": k, "kind": "silent", "slow_logout": True}, 0, []))
                if tier != "quick":
                    items.append(({"cfg": list(cfg), "script": name, "k": k, "kind": "silent", "explore": True},
                                  3, ["early", "order", "batch"]))
    return items


def run(tier, seed, t0):
    items = build_items(tier)
    if seed:
        k = seed % len(items)
        items = items[k:] + items[:k]
    part = report.merge_all(report.pmap(_work, items))
    bounds = {"configs": "all 8 combinations of idle_timeout {None,30}, socket_timeout {None,7}, wait_future_timeout {None,3}",
              "scripts": list(SCRIPTS), "stall_positions": "after every script event (one event per virtual second)",
              "stall_kinds": ["silent", "noread (peer window closed)", "never connects data (scripts *-no-data)",
                              "QUIT (alone or pipelined behind other commands) from a peer that does not read the replies"],
              "chatty": "command every idle-1 s for 5 periods",
              "with_speed_limits": "throttle pauses longer than socket_timeout / idle_timeout (RETR, STOR, LIST, chatty control "
                                   "session): a peer that never stalls is never dropped",
              "user_manager": "stock, and one whose logout notification takes 5 s (silent stalls)", "horizon_s": HORIZON, "cases": len(items)}
    return report.finish(
        PID, tier, seed, "model_checking", part, t0,
        rule="case = (timeout config, script, stall position, stall kind); real server in SimLoop, zero network latency, "
             "virtual clock; observed close time of the server-side control socket compared exactly with a timing "
             "reference; every case contains a stall so all are non-trivial; distinct by delivery-trace hash",
        bounds=bounds,
        assumptions=["environment model SimLoop/SimNet with a 1-byte send window (a peer that does not read blocks the "
                     "writer at once)", "timing reference written from the property statement: idle bound = last "
                     "command + idle_timeout; data bound = last data progress + socket_timeout; 425 at verb + "
                     "wait_future_timeout"])


def replay(path):
    data = json.loads(open(path).read())
    rp = data["replay"]
    if rp["case"].get("two_waiting"):
        part = run_two_waiting(rp["case"])
        print(json.dumps([v for v in part.violations], indent=1, default=repr))
        return 1 if part.violations else 0
    if rp["case"].get("tail_idle"):
        part = run_tail_idle(rp["case"])
        print(json.dumps([v for v in part.violations], indent=1, default=repr))
        return 1 if part.violations else 0
    if rp["case"].get("backlog"):
        part = run_backlog(rp["case"])
        print(json.dumps([v for v in part.violations], indent=1, default=repr))
        return 1 if part.violations else 0
    if rp["case"].get("trickle"):
        part = run_trickle(rp["case"])
        print(json.dumps([v for v in part.violations], indent=1, default=repr))
        return 1 if part.violations else 0
    if rp["case"].get("tail"):
        part = run_tail(rp["case"])
        print(json.dumps([v for v in part.violations], indent=1, default=repr))
        return 1 if part.violations else 0
    if rp["case"].get("throttled"):
        part = run_throttled(rp["case"])
        print(json.dumps([v["detail"] for v in part.violations], indent=1, default=repr))
        return 1 if part.violations else 0
    res = run_stall(rp["case"], Chooser(rp["choices"], rp.get("kinds") or None))
    print(json.dumps({"case": rp["case"], "problems": res["problems"]}, indent=1, default=repr))
    return 1 if res["problems"] else 0
