"""C15 Speed limits bound the cumulative rate, compose, and cost nothing when off.

E3 at the API: Throttle / ThrottleStreamIO driven in virtual time with fake
reader/writer whose I/O takes a chosen duration - all sequences of (chunk,
io-duration, idle-gap) up to a length, for one throttle, two throttles on one
stream, shared and cloned throttles, limit None/0/opposite direction, limit
setter and clone() mid-sequence; exact comparison with an arithmetic reference.
End-to-end: each of the five limit levels (and pairs) x direction x 1..3
connections x 1..2 users x sizes with the real client and server at zero
latency; cumulative-rate bound on every observed I/O plus finish-time bounds.
DESIGN.md §5 C15.
"""
import asyncio
import itertools
import json

from vf import report
from vf.rig import Rig
from vf.world import World, Hang

PID = "C15"
EPS = 1e-9


# --------------------------------------------------------------------------
# API level
# --------------------------------------------------------------------------
class FakeReader:
    def __init__(self, log):
        self.log = log
        self.duration = 0.0
        self.chunk = b""

    async def read(self, count=-1):
        self.log.append(("start", asyncio.get_running_loop().time(), len(self.chunk)))
        if self.duration:
            await asyncio.sleep(self.duration)
        return self.chunk

    async def readline(self):
        return await self.read()

    async def readexactly(self, count):
        return await self.read(count)


class FakeWriter:
    def __init__(self, log):
        self.log = log
        self.duration = 0.0

    def write(self, data):
        self.log.append(("start", asyncio.get_running_loop().time(), len(data)))

    async def drain(self):
        if self.duration:
            await asyncio.sleep(self.duration)

    def close(self):
        pass


def reference(seq, limits, direction_limited=True):
    """sequential single stream: seq of (chunk, duration, gap); limits = list of L (None/0 = unlimited) for the throttles
    applied to the direction.  Returns list of expected I/O start times."""
    t = 0.0
    t0 = [None] * len(limits)
    B = [0] * len(limits)
    starts = []
    for chunk, dur, gap in seq:
        t += gap
        w = t
        for k, L in enumerate(limits):
            if L and t0[k] is not None:
                w = max(w, t0[k] + B[k] / L)
        starts.append(w)
        for k, L in enumerate(limits):
            if L:
                if t0[k] is None:
                    t0[k] = w
                B[k] += chunk
        t = w + dur
    return starts


def drive(world, a, seq, throttles, direction, events=None):
    """run seq through a real ThrottleStreamIO; returns observed I/O start times"""
    log = []
    reader, writer = FakeReader(log), FakeWriter(log)
    stream = a.ThrottleStreamIO(reader, writer, throttles=throttles)

    async def main():
        for i, (chunk, dur, gap) in enumerate(seq):
            if events and i in events:
                events[i](throttles)
            if gap:
                await asyncio.sleep(gap)
            if direction in ("read", "readexactly", "readline"):
                reader.chunk, reader.duration = b"x" * chunk, dur
                await getattr(stream, direction)(*([chunk] if direction != "readline" else []))
            else:
                writer.duration = dur
                await stream.write(b"x" * chunk)

    world.loop._vtime = 0.0
    world.loop.iterations = 0
    world.run(main())
    return [t for _, t, _ in log]


def api_single(item):
    L, reset, length, direction = item[:4]
    family = item[4] if len(item) > 4 else "dyadic"
    import aioftp as a
    part = report.Partial()
    w = World()
    try:
        chunks = [1, L // 2, L, 3 * L]
        durs = [0.0, 0.25, 2.0 * reset]
        gaps = [0.0, 0.5, reset + 1.0]
        if family == "fine":
            # reset periods far below one byte's worth of time: a trickle under the limit, bursts in between
            chunks, durs, gaps = [1], [0.0], [0.0, 0.004, 0.016]
        alpha = list(itertools.product(chunks, durs, gaps))
        rdir = "read" if direction.startswith("read") else "write"
        for n in range(1, length + 1):
            for seq in itertools.product(alpha, repeat=n):
                thr = a.StreamThrottle(read=a.Throttle(limit=L if rdir == "read" else None, reset_rate=reset),
                                       write=a.Throttle(limit=L if rdir == "write" else None, reset_rate=reset))
                got = drive(w, a, seq, {"t": thr}, direction)
                want = reference(seq, [L])
                part.evaluations += 1
                # (no allowance that grows with the number of operations: the bound is cumulative)
                if any(abs(g - x) > 1e-6 for i, (g, x) in enumerate(zip(got, want))) or len(got) != len(want):
                    part.violation({"kind": "throttle-start-times", "config": "single", "direction": direction},
                                   {"L": L, "reset_rate": reset, "seq": seq, "got": got, "want": want},
                                   replay={"api": ["single", L, reset, list(map(list, seq)), direction]})
                    if len(part.violations) > 20:
                        return part
            part.states.add(report.fp([L, reset, n, direction, family]))
        part.nontrivial.add(report.fp([L, reset, length, direction, family]))
        part.sample({"L": L, "reset_rate": reset, "length": length, "direction": direction, "alphabet": len(alpha)}, limit=1)
    finally:
        w.close()
    part.transitions = part.evaluations
    return part


def api_debt(item):
    """two levels on one stream (a shared throttle and the stream's own), the shared one already in debt through
    another stream when this stream does its first I/O: from then on the tightest of the two governs - the wait for
    the shared level earns the fresh own level no credit"""
    c1, length = item
    import aioftp as a
    part = report.Partial()
    w = World()
    try:
        LS, LP = 8, 4
        alpha = list(itertools.product([1, 4, 12], [0.0, 0.25], [0.0, 0.5]))
        for direction in ("read", "write"):
            for n in range(1, length + 1):
                for seq in itertools.product(alpha, repeat=n):
                    shared = a.StreamThrottle.from_limits(LS, LS)
                    own = a.StreamThrottle.from_limits(LP, LP)
                    log1, log2 = [], []
                    r1, w1 = FakeReader(log1), FakeWriter(log1)
                    r2, w2 = FakeReader(log2), FakeWriter(log2)
                    first = a.ThrottleStreamIO(r1, w1, throttles={"shared": shared})
                    second = a.ThrottleStreamIO(r2, w2, throttles={"shared": shared, "own": own})

                    async def main():
                        if direction == "read":
                            r1.chunk = b"x" * c1
                            await first.read(c1)
                        else:
                            await first.write(b"x" * c1)
                        for chunk, dur, gap in seq:
                            if gap:
                                await asyncio.sleep(gap)
                            if direction == "read":
                                r2.chunk, r2.duration = b"x" * chunk, dur
                                await second.read(chunk)
                            else:
                                w2.duration = dur
                                await second.write(b"x" * chunk)

                    w.loop._vtime = 0.0
                    w.loop.iterations = 0
                    w.run(main())
                    got = [t for _, t, _ in log2]
                    # reference: the shared level starts with c1 bytes booked at t=0, the own level is fresh
                    t, want = 0.0, []
                    s_b, p_t0, p_b = c1, None, 0
                    for chunk, dur, gap in seq:
                        t += gap
                        st = max(t, s_b / LS, (p_t0 + p_b / LP) if p_t0 is not None else 0.0)
                        want.append(st)
                        if p_t0 is None:
                            p_t0 = st
                        s_b += chunk
                        p_b += chunk
                        t = st + dur
                    part.evaluations += 1
                    if len(got) != len(want) or any(abs(g - x) > 1e-6 for g, x in zip(got, want)):
                        part.violation({"kind": "throttle-start-times", "config": "shared-in-debt + fresh own level", "direction": direction},
                                       {"first_stream_bytes": c1, "limits": [LS, LP], "seq": seq, "got": got, "want": want},
                                       replay={"api": ["debt", c1, length]})
                        return part
                part.states.add(report.fp(["debt", c1, direction, n]))
        part.nontrivial.add(report.fp(["debt", c1]))
        part.sample({"debt": c1, "length": length, "alphabet": len(alpha)}, limit=1)
    finally:
        w.close()
    part.transitions = part.evaluations
    return part


def api_independent(item):
    """streams built without a table of throttles: a limit put on one of them (in place, as the server does with
    ``throttles.update``) is that stream's alone - every other stream stays without any delay"""
    how, length = item
    import aioftp as a
    part = report.Partial()
    w = World()
    try:
        L = 8
        alpha = list(itertools.product([1, L, 3 * L], [0.0, 0.25], [0.0, 0.5]))
        for direction in ("read", "write"):
            for n in range(1, length + 1):
                for seq in itertools.product(alpha, repeat=n):
                    first = a.ThrottleStreamIO(FakeReader([]), FakeWriter([]))
                    thr = a.StreamThrottle.from_limits(L, L)
                    if how == "setitem":
                        first.throttles["mine"] = thr
                    elif how == "update":
                        first.throttles.update(mine=thr)
                    else:
                        first.throttles.setdefault("mine", thr)
                    log = []
                    reader, writer = FakeReader(log), FakeWriter(log)
                    second = a.ThrottleStreamIO(reader, writer)

                    async def main():
                        for chunk, dur, gap in seq:
                            if gap:
                                await asyncio.sleep(gap)
                            if direction == "read":
                                reader.chunk, reader.duration = b"x" * chunk, dur
                                await second.read(chunk)
                            else:
                                writer.duration = dur
                                await second.write(b"x" * chunk)

                    w.loop._vtime = 0.0
                    w.loop.iterations = 0
                    w.run(main())
                    got = [t for _, t, _ in log]
                    want = reference(seq, [])
                    part.evaluations += 1
                    if len(got) != len(want) or any(abs(g - x) > 1e-6 for g, x in zip(got, want)):
                        part.violation({"kind": "stream-without-limit-delayed-by-another-streams-limit", "how": how},
                                       {"seq": seq, "direction": direction, "got": got, "want": want},
                                       replay={"api": ["independent", how, length]})
                        return part
                part.states.add(report.fp(["independent", how, direction, n]))
        part.nontrivial.add(report.fp(["independent", how]))
        part.sample({"independent": how, "length": length, "alphabet": len(alpha)}, limit=1)
    finally:
        w.close()
    part.transitions = part.evaluations
    return part


def api_configs(item):
    """two throttles, shared/cloned, None/0/opposite, setter and clone mid-sequence"""
    kind, length = item
    import aioftp as a
    part = report.Partial()
    w = World()
    try:
        L = 8
        alpha = list(itertools.product([1, 4, 8, 24], [0.0, 0.25, 2.0], [0.0, 0.5, 2.0]))
        seqs = [s for n in range(1, length + 1) for s in itertools.product(alpha, repeat=n)]
        if kind == "two-throttles":
            for L2, r2 in ((16, 1), (4, 10), (8, 1), (1024, 1)):
                for seq in seqs:
                    thr = {"x": a.StreamThrottle(read=a.Throttle(limit=L, reset_rate=1), write=a.Throttle()),
                           "y": a.StreamThrottle(read=a.Throttle(limit=L2, reset_rate=r2), write=a.Throttle())}
                    got = drive(w, a, seq, thr, "read")
                    want = reference(seq, [L, L2])
                    part.evaluations += 1
                    if any(abs(g - x) > 1e-6 + 0.5 / min(L, L2) * (i + 1) for i, (g, x) in enumerate(zip(got, want))):
                        part.violation({"kind": "throttle-start-times", "config": "two-throttles"},
                                       {"L": [L, L2], "seq": seq, "got": got, "want": want},
                                       replay={"api": ["two", L2, r2, list(map(list, seq))]})
                        break
        elif kind == "unlimited":
            for lim_r, lim_w, direction in ((None, None, "read"), (0, 0, "write"), (None, 8, "read"), (8, None, "write"),
                                            (0, 8, "read")):
                for seq in seqs:
                    thr = {"x": a.StreamThrottle(read=a.Throttle(limit=lim_r), write=a.Throttle(limit=lim_w))}
                    got = drive(w, a, seq, thr, direction)
                    want = reference(seq, [None])
                    part.evaluations += 1
                    if any(abs(g - x) > EPS for g, x in zip(got, want)):
                        part.violation({"kind": "delay-without-limit", "limits": [lim_r, lim_w], "direction": direction},
                                       {"seq": seq, "got": got, "want": want},
                                       replay={"api": ["unlimited", lim_r, lim_w, direction, list(map(list, seq))]})
                        break
        elif kind == "setter-clone":
            for seq in seqs:
                if len(seq) < 2:
                    continue
                for at in range(1, len(seq)):
                    # limit setter forgets the history: behaves like a fresh throttle with the new limit
                    thr = {"x": a.StreamThrottle(read=a.Throttle(limit=L, reset_rate=1), write=a.Throttle())}

                    def set_limit(t):
                        t["x"].read.limit = 16
                    got = drive(w, a, seq, thr, "read", events={at: set_limit})
                    w1 = reference(seq[:at], [L])
                    # second part: fresh, but the clock continues from where the first part ended
                    tail_start = (w1[-1] + seq[at - 1][1]) if w1 else 0.0
                    w2 = [tail_start + x for x in reference(seq[at:], [16])]
                    want = w1 + w2
                    part.evaluations += 1
                    if any(abs(g - x) > 1e-6 + 0.5 / 8 * (i + 1) for i, (g, x) in enumerate(zip(got, want))):
                        part.violation({"kind": "limit-setter"}, {"seq": seq, "at": at, "got": got, "want": want},
                                       replay={"api": ["setter", at, list(map(list, seq))]})
                        break
                    # clone() has no memory
                    thr = {"x": a.StreamThrottle(read=a.Throttle(limit=L, reset_rate=1), write=a.Throttle())}

                    def do_clone(t):
                        t["x"] = t["x"].clone()
                    got = drive(w, a, seq, thr, "read", events={at: do_clone})
                    w2 = [tail_start + x for x in reference(seq[at:], [L])]
                    want = w1 + w2
                    part.evaluations += 1
                    if any(abs(g - x) > 1e-6 + 0.5 / 8 * (i + 1) for i, (g, x) in enumerate(zip(got, want))):
                        part.violation({"kind": "clone-memory"}, {"seq": seq, "at": at, "got": got, "want": want},
                                       replay={"api": ["clone", at, list(map(list, seq))]})
                        break
        elif kind == "shared-vs-cloned":
            # two streams, n ops of chunk c each, I/O duration d
            for c, d, n in itertools.product([1, 4, 8, 24], [0.0, 0.25], [1, 2, 3, 4]):
                for shared in (True, False):
                    base = a.StreamThrottle(read=a.Throttle(limit=L, reset_rate=1), write=a.Throttle())
                    logs = [[], []]
                    streams = []
                    for k in range(2):
                        r = FakeReader(logs[k])
                        r.chunk, r.duration = b"x" * c, d
                        streams.append(a.ThrottleStreamIO(r, FakeWriter(logs[k]),
                                                          throttles={"x": base if shared else base.clone()}))

                    async def one(s):
                        for _ in range(n):
                            await s.read(c)

                    async def main():
                        await asyncio.gather(one(streams[0]), one(streams[1]))

                    w.loop._vtime = 0.0
                    w.loop.iterations = 0
                    w.run(main())
                    part.evaluations += 1
                    allstarts = sorted((t, b) for lg in logs for _, t, b in lg)
                    t0 = allstarts[0][0]
                    if shared:
                        moved = 0
                        for t, b in allstarts:
                            if moved > L * (t - t0) + 2 * c + EPS:
                                part.violation({"kind": "shared-limit-exceeded"}, {"c": c, "d": d, "n": n, "starts": allstarts},
                                               replay={"api": ["shared", c, d, n]})
                                break
                            moved += b
                        end = max(t for t, b in allstarts)
                        if end - t0 > (2 * n * c) / L + n * d + EPS:
                            part.violation({"kind": "shared-limit-extra-delay"}, {"c": c, "d": d, "n": n, "end": end},
                                           replay={"api": ["shared", c, d, n]})
                    else:
                        solo = reference([(c, d, 0.0)] * n, [L])
                        for lg in logs:
                            got = [t for _, t, _ in lg]
                            if any(abs(g - x) > 1e-6 + 0.5 / L * (i + 1) for i, (g, x) in enumerate(zip(got, solo))):
                                part.violation({"kind": "cloned-limits-not-independent"}, {"c": c, "d": d, "n": n, "got": got,
                                                                                          "solo": solo},
                                               replay={"api": ["cloned", c, d, n]})
                                break
            # clones of an *unlimited* template, one of which gets a limit afterwards (the limit setter is public API):
            # the other clone, and the template, stay unlimited and keep no memory of it
            for c, d, n in itertools.product([4, 24], [0.0, 0.25], [2, 4]):
                base = a.StreamThrottle(read=a.Throttle(), write=a.Throttle())
                clones = [base.clone(), base.clone()]
                clones[0].read.limit = L
                logs = [[], []]
                streams = []
                for k in range(2):
                    r = FakeReader(logs[k])
                    r.chunk, r.duration = b"x" * c, d
                    streams.append(a.ThrottleStreamIO(r, FakeWriter(logs[k]), throttles={"x": clones[k]}))

                async def one2(s_):
                    for _ in range(n):
                        await s_.read(c)

                async def main2():
                    await asyncio.gather(one2(streams[0]), one2(streams[1]))

                w.loop._vtime = 0.0
                w.loop.iterations = 0
                w.run(main2())
                part.evaluations += 1
                want0 = reference([(c, d, 0.0)] * n, [L])
                want1 = reference([(c, d, 0.0)] * n, [None])
                got0, got1 = [t for _, t, _ in logs[0]], [t for _, t, _ in logs[1]]
                bad = (any(abs(g - x) > 1e-6 for g, x in zip(got1, want1)) or base.read.limit is not None
                       or clones[1].read.limit is not None
                       or any(abs(g - x) > 1e-6 + 0.5 / L * (i + 1) for i, (g, x) in enumerate(zip(got0, want0))))
                if bad:
                    part.violation({"kind": "limit-set-on-one-clone-leaks-to-the-others"},
                                   {"c": c, "d": d, "n": n, "limited": got0, "unlimited": got1, "want_limited": want0,
                                    "want_unlimited": want1, "template_limit": base.read.limit},
                                   replay={"api": ["clone-then-limit", c, d, n]})
                    break
            # asymmetric sharing: one stream's I/O is slow (it is accounted late, with an old start time), the other's
            # is instantaneous and keeps folding the window forward (reset_rate 1)
            for c, dA, dB, n in itertools.product([4, 8, 24], [2.0, 0.75, 3.0], [0.0, 0.25], [2, 4, 6]):
                base = a.StreamThrottle(read=a.Throttle(limit=L, reset_rate=1), write=a.Throttle())
                logs = [[], []]
                streams = []
                for k, d in enumerate((dA, dB)):
                    r = FakeReader(logs[k])
                    r.chunk, r.duration = b"x" * c, d
                    streams.append(a.ThrottleStreamIO(r, FakeWriter(logs[k]), throttles={"x": base}))

                async def one(s_, m):
                    for _ in range(m):
                        await s_.read(c)

                async def main2():
                    await asyncio.gather(one(streams[0], max(1, n // 2)), one(streams[1], n))

                w.loop._vtime = 0.0
                w.loop.iterations = 0
                w.run(main2())
                part.evaluations += 1
                allstarts = sorted((t, b) for lg in logs for _, t, b in lg)
                t0 = allstarts[0][0]
                moved = 0
                for t, b in allstarts:
                    if moved > L * (t - t0) + 2 * c + EPS:
                        part.violation({"kind": "shared-limit-exceeded", "asymmetric": True},
                                       {"c": c, "dA": dA, "dB": dB, "n": n, "starts": allstarts[:12], "at": t, "moved": moved},
                                       replay={"api": ["shared-asym", c, dA, dB, n]})
                        break
                    moved += b
        part.states.add(report.fp([kind, length]))
        part.nontrivial.add(report.fp([kind, length]))
        part.sample({"config": kind, "length": length}, limit=1)
    finally:
        w.close()
    part.transitions = part.evaluations
    return part


# --------------------------------------------------------------------------
# end to end
# --------------------------------------------------------------------------
LEVELS = ["client", "server", "server_per_connection", "user", "user_per_connection"]
LIM = 100
BLOCK = 10


def e2e_case(case):
    levels, direction, nconn, nusers, size = case["levels"], case["direction"], case["nconn"], case["nusers"], case["size"]
    part = report.Partial()
    # limited side: download = server writes / client reads; upload = server reads / client writes
    skw = {"block_size": BLOCK}
    ukw = {}
    ckw = {}
    if case.get("timeouts"):
        # stream time-outs shorter than one throttle pause: they bound how long the *peer* may stall, a pause the
        # limit itself asks for is not a stall (nobody stalls here)
        # (set on the side that throttles: to the other side a throttled peer *is* a slow peer)
        if levels == ["client"]:
            ckw["socket_timeout"] = case["timeouts"]
        else:
            skw["socket_timeout"] = case["timeouts"]
    listing = direction in ("list", "mlsd")          # a directory listing is a download too
    srv_dir = "write" if direction == "download" or listing else "read"
    cli_dir = "read" if direction == "download" or listing else "write"
    lim = {lv: (LIM if i == 0 else 2 * LIM) for i, lv in enumerate(levels)}      # first level is the tightest
    if case.get("opposite"):
        srv_dir, cli_dir = cli_dir, srv_dir          # limit only the opposite direction: must cost nothing
    for lv, L in lim.items():
        if lv == "client":
            ckw[f"{cli_dir}_speed_limit"] = L
        elif lv == "server":
            skw[f"{srv_dir}_speed_limit"] = L
        elif lv == "server_per_connection":
            skw[f"{srv_dir}_speed_limit_per_connection"] = L
        elif lv == "user":
            ukw[f"{srv_dir}_speed_limit"] = L
        elif lv == "user_per_connection":
            ukw[f"{srv_dir}_speed_limit_per_connection"] = L

    def users(a, base):
        if case.get("anonymous"):
            # one account without a login of its own: whatever name a peer gives, it is this account
            return [a.User("free", None, base_path=base), a.User(base_path=base, **ukw)]
        return [a.User(f"u{k}", None, base_path=base, **ukw) for k in range(nusers)] + [a.User("free", None, base_path=base)]

    def name_of(k):
        if case.get("anonymous"):
            return "anonymous" if k == 0 else f"guest{k}"
        return f"u{k % nusers}"

    relogin = case.get("relogin")

    data = bytes(range(256)) * (size // 256 + 1)
    data = data[:size]
    tree = {f"f{k}": data for k in range(nconn)}
    if listing:
        for k in range(nconn):
            tree[f"d{k}"] = {f"entry-with-a-long-name-{i:03d}": b"" for i in range(max(1, size // 60))}
    rig = Rig(tree=tree, users=users, server_kwargs=skw)
    w = rig.world
    a = w.aioftp
    times = {}
    streams = {}
    churn_streams = {}
    login_marks = {}
    try:
        clients = {}

        async def login(k):
            c = a.Client(path_io_factory=a.MemoryPathIO, **ckw)
            await c.connect("127.0.0.1", 2121)
            streams[k] = [c.stream.writer.transport]
            if relogin == "free-then-limited":
                await c.login("free", "")
                await c.login(name_of(k), "")
            elif relogin == "limited-then-free":
                await c.login(name_of(k), "")
                await c.login("free", "")
            else:
                await c.login(name_of(k), "")
            clients[k] = c
            srv = c.stream.writer.transport.peer
            login_marks[k] = (len(srv.write_log), len(srv.read_log), len(c.stream.writer.transport.write_log),
                              len(c.stream.writer.transport.read_log))

        async def churn(k):
            # another connection of the same user comes and goes while the measured ones stay logged in
            c = a.Client(path_io_factory=a.MemoryPathIO, **ckw)
            await c.connect("127.0.0.1", 2121)
            churn_streams.setdefault(k % nusers, []).append(c.stream.writer.transport)
            await c.login(name_of(k), "")
            await c.quit()

        async def one(k):
            c = clients[k]
            t_begin = w.loop.time()
            if listing:
                n_lines = 0
                async with c.get_stream(f"{direction.upper()} /d{k}", "1xx") as st:
                    streams[k].append(st.writer.transport)
                    while True:
                        line = await st.readline()
                        if not line:
                            break
                        n_lines += 1
                ok = n_lines == max(1, size // 60)
            elif direction == "download":
                got = bytearray()
                async with c.download_stream(f"/f{k}") as st:
                    streams[k].append(st.writer.transport)
                    async for blk in st.iter_by_block(BLOCK):
                        got += blk
                ok = bytes(got) == data
            else:
                async with c.upload_stream(f"/up{k}") as st:
                    streams[k].append(st.writer.transport)
                    for i in range(0, size, BLOCK):
                        await st.write(data[i:i + BLOCK])
                ok = True
            times[k] = (t_begin, w.loop.time())
            await c.quit()
            return ok

        async def visitors():
            # other connections of the measured users log in (and leave) while the transfers are under way
            for n_visit, frac in enumerate((0.25, 0.5, 0.6)):
                await asyncio.sleep(frac * size / LIM - (w.loop.time() - t_start[0]))
                await churn(n_visit)

        t_start = [0.0]

        async def main():
            if case.get("churn"):
                for k in range(nconn):
                    await login(k)
                    await churn(k)
            else:
                await asyncio.gather(*[login(k) for k in range(nconn)])
            t_start[0] = w.loop.time()
            if case.get("midlogin"):
                res = await asyncio.gather(*[one(k) for k in range(nconn)], visitors())
                return res[:nconn]
            return await asyncio.gather(*[one(k) for k in range(nconn)])

        problems = []
        try:
            oks = w.run(main())
            if not all(oks):
                problems.append({"kind": "data-corrupted-under-throttle"})
        except Hang:
            problems.append({"kind": "hang"})
        except Exception as exc:
            problems.append({"kind": "exception", "exc": repr(exc)[:200]})
        total = w.loop.time()
        part.evaluations += 1
        part.traces += 1
        part.transitions += w.net.n_events
        if not problems:
            tight = levels[0] if levels else None
            if not levels:
                if total > EPS:
                    problems.append({"kind": "delay-without-applicable-limit", "virtual_seconds": total})
            elif case.get("opposite") or relogin == "limited-then-free":
                # the control channel also flows in the opposite direction and is legitimately throttled, so the
                # duration is not zero - but it must not depend on the amount of data moved
                if "compare_total" in case and abs(total - case["compare_total"]) > EPS:
                    problems.append({"kind": "opposite-direction-limit-slows-the-transfer", "virtual_seconds": total,
                                     "with_small_file": case["compare_total"]})
            else:
                # how many connections share the tightest limit?
                if tight == "server":
                    groups = [list(range(nconn))]
                elif tight == "user":
                    groups = [[k for k in range(nconn) if k % nusers == u] for u in range(nusers)]
                    groups = [g for g in groups if g]
                else:
                    groups = [[k] for k in range(nconn)]
                limited_side = "client" if tight == "client" else "server"
                io = "write" if (direction == "download" or listing) == (limited_side == "server") else "read"
                for g in groups:
                    trs = []
                    for k in g:
                        for ct in streams.get(k, []):
                            trs.append(ct if limited_side == "client" else ct.peer)
                    # connections that came and went share the server-wide / per-user budget too
                    if tight == "server":
                        for lst in churn_streams.values():
                            trs += [ct.peer for ct in lst]
                    elif tight == "user":
                        for u in {k % nusers for k in g}:
                            trs += [ct.peer for ct in churn_streams.get(u, [])]
                    def log_of(tr):
                        lg = tr.write_log if io == "write" else tr.read_log
                        if tight in ("user", "user_per_connection"):
                            # a per-user throttle exists only from the (last) login on: earlier I/O of the control
                            # connection is not subject to it
                            for k2, (sw, sr, cw, cr) in login_marks.items():
                                ctl = streams[k2][0]
                                if tr is ctl.peer:
                                    return lg[(sw if io == "write" else sr):]
                        return lg
                    ev = sorted((t, n) for tr in trs for t, n in log_of(tr) if n)
                    if not ev:
                        problems.append({"kind": "no-observations", "group": g})
                        continue
                    t0 = ev[0][0]
                    maxn = max(n for _, n in ev)
                    moved = 0
                    for t, n in ev:
                        # never ahead of L x (time since the first limited I/O) by more than the blocks in flight
                        if moved > LIM * (t - t0) + len(trs) * maxn + EPS:
                            problems.append({"kind": "cumulative-rate-exceeded", "level": tight, "group": g, "at": t,
                                             "moved": moved, "allowed": LIM * (t - t0) + len(trs) * maxn})
                            break
                        # and no delay beyond what the bound requires: this I/O could not have started earlier
                        moved += n
                    total_bytes = sum(n for _, n in ev)
                    t_last = ev[-1][0]
                    at_most = (total_bytes - ev[-1][1]) / LIM
                    # a looser (2 x LIM) limit of a *wider* scope can still be the binding one for the sum of several
                    # connections: then the bound is what that limit requires for everything in its scope
                    if len(levels) == 2 and levels[1] in ("server", "user"):
                        srv_io = "write" if direction == "download" or listing else "read"
                        scope = range(nconn) if levels[1] == "server" else [k for k in range(nconn)
                                                                              if k % nusers in {j % nusers for j in g}]
                        wide = 0
                        t0w = t0
                        for k in scope:
                            for ct in streams.get(k, []):
                                lg = [(t, n) for t, n in (ct.peer.write_log if srv_io == "write" else ct.peer.read_log) if n]
                                wide += sum(n for _, n in lg)
                                if lg:
                                    t0w = min(t0w, lg[0][0])
                        at_most = max(at_most, (t0w - t0) + wide / (2 * LIM))
                    if t_last - t0 > at_most + 0.02 * len(ev) + EPS:
                        problems.append({"kind": "extra-delay-or-limit-shared-too-widely", "level": tight, "group": g,
                                         "duration": t_last - t0, "at_most": at_most})
                    # lower bound: one block per stream may be in flight, and the very first I/O of a stream may
                    # predate the installation of a per-user throttle (the USER line itself)
                    firsts = 0
                    for tr in trs:
                        lg = [n for t, n in (tr.write_log if io == "write" else tr.read_log) if n]
                        firsts += lg[0] if lg else 0
                    at_least = (total_bytes - len(trs) * maxn - firsts) / LIM
                    if t_last - t0 < at_least - EPS:
                        problems.append({"kind": "limit-not-enforced", "level": tight, "group": g,
                                         "duration": t_last - t0, "at_least": at_least})
        part.last_total = total
        part.states.add(report.fp(case))
        part.nontrivial.add(report.fp(case))
        part.outcomes[report.fp(round(total, 3))] += 1
        part.sample({"case": case, "virtual_seconds": round(total, 3)}, limit=1)
        for p in problems[:1]:
            part.violation({"kind": p["kind"], "levels": levels, "direction": direction, "nconn": nconn > 1},
                           {"problem": p, "case": case, "total": total}, replay={"e2e": case})
        return part
    finally:
        rig.close()


_LOGS_ON = False


def client_sequence(item):
    """one client, its own limit, many small transfers one after the other (what upload / download of a tree does): the
    limit bounds the bytes of all of them together, not each transfer afresh"""
    direction, nfiles, size, limit = item
    part = report.Partial()
    data = bytes(range(256)) * (size // 256 + 1)
    data = data[:size]
    rig = Rig(tree={f"f{k}": data for k in range(nfiles)}, server_kwargs={"block_size": 8192})
    w = rig.world
    a = w.aioftp
    times = {}
    problems = []
    try:
        async def main():
            ckw = {("write" if direction == "upload" else "read") + "_speed_limit": limit}
            c = a.Client(path_io_factory=a.MemoryPathIO, **ckw)
            await c.connect("127.0.0.1", 2121)
            await c.login()
            times["t0"] = w.loop.time()
            for k in range(nfiles):
                if direction == "upload":
                    async with c.upload_stream(f"/up{k}") as st:
                        await st.write(data)
                else:
                    got = bytearray()
                    async with c.download_stream(f"/f{k}") as st:
                        async for blk in st.iter_by_block(8192):
                            got += blk
                    if bytes(got) != data:
                        problems.append({"kind": "data", "k": k})
            times["t1"] = w.loop.time()
            await c.quit()
        try:
            w.run(main())
        except Hang:
            problems.append({"kind": "hang"})
        total = nfiles * size
        took = times.get("t1", 0) - times.get("t0", 0)
        # blocks in flight: one (the transfers are sequential, each is one block); control-channel lines share the
        # client's throttle and only add to what must be waited for
        need = (total - size) / limit
        if not problems and took < need - 1e-6:
            problems.append({"kind": "cumulative-rate-exceeded-across-transfers", "bytes": total, "took": round(took, 4),
                             "limit_allows_at_the_earliest": round(need, 4)})
        # and no more delay than the limit asks for (all control lines together are far below 2000 bytes here)
        if not problems and took > (total + 2000) / limit + 1e-6:
            problems.append({"kind": "more-delay-than-the-limit-requires", "took": round(took, 4),
                             "at_most": round((total + 2000) / limit, 4)})
        part.evaluations += 1
        part.traces += 1
        part.transitions += w.net.n_events
        k = report.fp(["client-sequence", list(item)])
        part.states.add(k)
        part.nontrivial.add(k)
        for p in problems[:1]:
            part.violation({"kind": p["kind"], "levels": ["client"], "direction": direction, "sequence": True},
                           {"problem": p, "case": list(item)}, replay={"client_sequence": list(item)})
    finally:
        rig.close()
    return part


def enable_write_logs():
    """environment-boundary observation: (virtual time, bytes) of every transport.write and of every
    StreamReader.read*/readline call (time of the call, bytes returned) - a harness-side wrapper on asyncio"""
    global _LOGS_ON
    if _LOGS_ON:
        return
    _LOGS_ON = True
    from vf import simloop
    orig = simloop.SimTransport.__init__

    def init(self, *a, **k):
        orig(self, *a, **k)
        self.write_log = []
        self.read_log = []
    simloop.SimTransport.__init__ = init

    def wrap(name):
        fn = getattr(asyncio.StreamReader, name)

        async def logged(self, *a, **k):
            tr = getattr(self, "_transport", None)
            t = asyncio.get_running_loop().time()
            data = await fn(self, *a, **k)
            if tr is not None and hasattr(tr, "read_log"):
                tr.read_log.append((t, len(data)))
            return data
        setattr(asyncio.StreamReader, name, logged)
    for n in ("read", "readline"):
        wrap(n)


def e2e_work(cases):
    enable_write_logs()
    part = report.Partial()
    for c in cases:
        if c.get("opposite") or c.get("relogin") == "limited-then-free":
            small = dict(c, size=BLOCK)
            p0 = e2e_case(small)
            c = dict(c, compare_total=p0.last_total)
        part.merge(e2e_case(c))
    return part


def e2e_items(tier):
    cases = []
    sizes = [3 * BLOCK + 1, 20 * BLOCK, 100 * BLOCK] if tier != "quick" else [20 * BLOCK, 60 * BLOCK]
    combos = [[lv] for lv in LEVELS] + [list(p) for p in itertools.permutations(LEVELS, 2)]
    for levels in combos:
        for direction in ("download", "upload"):
            for nconn, nusers in ((1, 1), (2, 1), (2, 2), (3, 2)):
                if tier == "quick" and len(levels) == 2 and (nconn, nusers) in ((3, 2), (2, 1)):
                    continue
                for size in sizes:
                    cases.append({"levels": levels, "direction": direction, "nconn": nconn, "nusers": nusers, "size": size})
                if len(levels) == 1 and nconn > 1:
                    # the same, with other connections of the same users logging in and out in between
                    cases.append({"levels": levels, "direction": direction, "nconn": nconn, "nusers": nusers,
                                  "size": sizes[0], "churn": True})
    # directory listings are data transfers as well (LIST and MLSD of a directory with many entries)
    for levels in ([lv] for lv in LEVELS):
        for direction in ("list", "mlsd"):
            for nconn, nusers in ((1, 1), (2, 1)):
                cases.append({"levels": levels, "direction": direction, "nconn": nconn, "nusers": nusers, "size": 20 * 60})
    # other sessions of the same account log in and out *while* the measured transfers are running
    for levels in (["user"], ["user", "server"], ["server"], ["user_per_connection"], ["user", "client"]):
        for direction in ("download", "upload"):
            for nconn, nusers in ((1, 1), (2, 1), (2, 2)):
                cases.append({"levels": levels, "direction": direction, "nconn": nconn, "nusers": nusers,
                              "size": 40 * BLOCK, "midlogin": True})
    # one anonymous account, every connection under another name
    for lv in ("user", "user_per_connection"):
        for direction in ("download", "upload"):
            for nconn in (2, 3):
                cases.append({"levels": [lv], "direction": direction, "nconn": nconn, "nusers": 1, "size": 20 * BLOCK,
                              "anonymous": True})
    # re-login on the same control connection: only the limits of the user logged in *now* apply
    for lv in ("user", "user_per_connection"):
        for direction in ("download", "upload"):
            for how in ("free-then-limited", "limited-then-free"):
                for nconn in (1, 2):
                    cases.append({"levels": [lv], "direction": direction, "nconn": nconn, "nusers": 1, "size": 20 * BLOCK,
                                  "relogin": how})
    # stream time-outs shorter than a throttle pause
    for lv in LEVELS:
        for direction in ("download", "upload", "list"):
            for nconn in (1, 2):
                cases.append({"levels": [lv], "direction": direction, "nconn": nconn, "nusers": 1,
                              "size": 20 * BLOCK if direction != "list" else 20 * 60, "timeouts": BLOCK / LIM / 4})
    for direction in ("download", "upload"):
        for nconn in (1, 2):
            cases.append({"levels": [], "direction": direction, "nconn": nconn, "nusers": 1, "size": 20 * BLOCK})
            for lv in LEVELS:
                cases.append({"levels": [lv], "direction": direction, "nconn": nconn, "nusers": 1, "size": 20 * BLOCK,
                              "opposite": True})
    return [cases[i:i + 12] for i in range(0, len(cases), 12)], len(cases)


def run(tier, seed, t0):
    length = 2 if tier == "quick" else 3
    api_items = [(L, r, length, d) for L in (8, 1024) for r in (1, 10) for d in ("read", "write")]
    if tier == "quick":
        api_items.append((8, 1, 3, "read"))
    # every public read path of the stream is throttled alike
    api_items += [(L, 1, length, d) for L in (8, 1024) for d in ("readexactly", "readline")]
    # reset periods shorter than the time one byte takes
    api_items += [(100, r, 7 if tier == "quick" else 9, d, "fine") for r in (0.001, 0.01) for d in ("read", "write")]
    cfg_items = [(k, 2 if tier == "quick" else 3) for k in ("two-throttles", "unlimited", "setter-clone", "shared-vs-cloned")]
    eitems, ncases = e2e_items(tier)
    seq_items = [(d, n, size, 20000) for d in ("upload", "download") for n in (2, 5, 15) for size in (1000, 4000, 8192, 10000)]
    ind_items = [(how, length) for how in ("setitem", "update", "setdefault")]
    debt_items = [(c1, length) for c1 in (8, 24, 80)]
    parts = report.pmap(api_single, api_items) + report.pmap(api_configs, cfg_items) + report.pmap(api_independent, ind_items) + report.pmap(api_debt, debt_items) \
        + report.pmap(e2e_work, eitems) \
        + report.pmap(client_sequence, seq_items)
    part = report.merge_all(parts)
    bounds = {"api": {"limits": [8, 1024], "reset_rates": [1, 10], "fine": "L=100, reset 0.001/0.01, 1-byte blocks, gaps 0/4/16 ms, length 7 (9 thorough)", "read_paths": ["read", "readline", "readexactly"], "chunk": "1, L/2, L, 3L", "io_duration": "0, 1/4, 2*reset",
                      "idle_gap": "0, 1/2, reset+1", "sequence_length": length if tier != "quick" else "2 (3 for L=8, reset=1)",
                      "configs": ["single", "two-throttles", "unlimited/zero/opposite", "setter/clone mid-sequence",
                                  "shared vs cloned (two concurrent streams)"]},
              "e2e": {"levels": LEVELS, "pairs": "all ordered pairs (first = tightest)", "directions": ["download", "upload"],
                      "connections_users": [(1, 1), (2, 1), (2, 2), (3, 2)], "mid_transfer_logins": "three more connections of the measured users log in and quit at 25/50/60 % of the transfer", "churn": "extra connections of the same users log in and out between the logins of the measured ones", "sizes": [BLOCK, 3 * BLOCK + 1, 20 * BLOCK],
                      "limit": LIM, "cases": ncases, "relogin": "free user then limited user and the reverse on one control connection", "client_sequence": "one client with its own limit moving 2 / 5 / 15 files of 1000..10000 bytes one after the other", "timeouts": "server and client socket_timeout of a quarter of one throttle pause (nobody stalls)"}}
    return report.finish(
        PID, tier, seed, "model_checking", part, t0,
        rule="API: every sequence over the (chunk, duration, gap) alphabet through the real ThrottleStreamIO on the virtual "
             "clock, I/O start times compared with the arithmetic reference max(request, t0 + bytes/L) per throttle. E2E: "
             "every (levels, direction, connections, users, size) case with the real client and server at zero latency: "
             "finish time per limit-sharing group within [bytes - in flight, bytes + in flight]/L, zero virtual time when no "
             "limit applies, cumulative bound on every server-side write.",
        bounds=bounds,
        assumptions=["virtual clock; start times compared to 1e-6 s",
                     "in-flight allowance: one block per stream plus control-channel lines"])


def replay(path):
    data = json.loads(open(path).read())
    rp = data["replay"]
    if "client_sequence" in rp:
        part = client_sequence(tuple(rp["client_sequence"]))
        print(json.dumps([v["detail"] for v in part.violations], indent=1, default=repr))
        return 1 if part.violations else 0
    if "e2e" in rp:
        enable_write_logs()
        part = e2e_case(rp["e2e"])
        print(json.dumps([v["detail"] for v in part.violations], indent=1, default=repr))
        return 1 if part.violations else 0
    if rp.get("api", [None])[0] == "debt":
        part = api_debt((rp["api"][1], rp["api"][2]))
        print(json.dumps([v["detail"] for v in part.violations], indent=1, default=repr))
        return 1 if part.violations else 0
    if rp.get("api", [None])[0] == "independent":
        part = api_independent((rp["api"][1], rp["api"][2]))
        print(json.dumps([v["detail"] for v in part.violations], indent=1, default=repr))
        return 1 if part.violations else 0
    print(json.dumps(data["detail"], indent=1, default=repr))
    return 1
