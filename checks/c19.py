"""C19 Malformed input from the peer is contained on both sides.

E3: every single mutation (and windowed pairs) of valid unix / windows / MLSx
listing lines and PASV / EPSV / 257 payloads through the client's parsers;
E1-style client end-to-end against a scripted raw server sending mutated reply
streams and listings (incl. '.' and '..'); server side: a hostile session
(mutated arguments, raw bytes, over-long lines, EOF after every prefix) next to
a healthy one.  DESIGN.md §5 C19.
"""
import itertools
import json
import time
import pathlib

from vf import ledger, report
from vf.fakeserver import FakeServer
from vf.rig import Rig
from vf.world import World, Hang, Running, Session
from vf.simloop import Livelock

PID = "C19"
GAMMA = [b" ", b"-", b"M", b"0", b"9", b":", b">", b'"', b"/", b"\xff", b"\xc3\xa9", b"\0", b"d", b"l", b";", b"=", b"\t",
         b"\xc2\xb2", b"\xd9\xa3"]     # (digits that are not ASCII: superscript two, Arabic-Indic three)

UNIX = [
    b"-rw-r--r-- 1 none none 10 Jan 15 12:30 file.txt",
    b"drwxr-xr-x 2 none none 4096 Mar  3  2019 dir name",
    b"lrwxrwxrwx 1 root root 7 Feb 29 10:00 link -> target/",
    b"-rwsr-sr-t 12 o g 1234567 Dec 31  2023 sticky",
    b"-rw-r--r-- 1 none none 0 Feb 29 00:00 leap",
    b"lrwxrwxrwx 1 root root 7 Jun  1 09:00 'q l' -> \"t g\"",
    b"-rw-r--r--   1 user    group      512 Nov 18 12:29 padded",
    b"crw-rw---- 1 root tty 4 Aug  9 07:15 tty0",
]
WINDOWS = [
    b"01/15/2024  12:30 PM    <DIR>          Documents",
    b"12/31/1999  11:59 PM             1,024 file name.txt",
    b"07/04/2021  01:05 AM                 0 empty",
]
MLSX = [
    b"Type=file;Size=10;Modify=20240115123000; file.txt",
    b"type=dir;modify=20240115123000;UNIX.mode=0755; a dir",
    b"Type=cdir;Perm=el; /",
    b" name-only",
]
PASV = ["227 Entering Passive Mode (127,0,0,1,195,80).", "227 ok (10,0,0,5,0,21)", "227 =(1,2,3,4,5,6)", "227 (0,0,0,0,255,255) x (1)"]
EPSV = ["229 Entering Extended Passive Mode (|||50000|)", "229 ok (!!!21!)", "229 a (|||1|) b (|||2|)"]
D257 = ['257 "/home/user" is current', '257 "/a""b"', '257 "/"', '257 no quotes here']


def mutations(seed, pairs_window=0):
    n = len(seed)
    out = []
    for i in range(n + 1):
        for k in range(1, 7):
            if i + k <= n:
                out.append(seed[:i] + seed[i + k:])
        for g in GAMMA:
            out.append(seed[:i] + g + seed[i:])
            if i < n:
                out.append(seed[:i] + g + seed[i + 1:])
        out.append(seed[:i])
        out.append(seed[i:])
    toks = seed.split(b" ")
    for a, b in itertools.combinations(range(len(toks)), 2):
        t = list(toks)
        t[a], t[b] = t[b], t[a]
        out.append(b" ".join(t))
    for a in range(len(toks)):
        out.append(b" ".join(toks[:a + 1] + toks[a:]))
    return out


def pair_mutations(seed, window):
    """pairs of single byte replacements/deletions at distinct positions within a window"""
    n = len(seed)
    out = []
    small = [b" ", b"-", b"9", b":", b"\xff"]
    for i in range(n):
        for j in range(i + 1, min(n, i + window)):
            for g1 in small:
                for g2 in (b"", b" ", b"M"):
                    out.append(seed[:i] + g1 + seed[i + 1:j] + g2 + seed[j + 1:])
    return out


def parser_work(item):
    family, seeds, with_pairs = item
    import aioftp
    part = report.Partial()
    c = aioftp.Client(path_io_factory=aioftp.MemoryPathIO)

    def refusing(b):
        raise ValueError("custom parser: not mine")

    # every documented configuration of the listing parsers: none / a custom one, tried first / last
    configs = [c] + [aioftp.Client(path_io_factory=aioftp.MemoryPathIO, parse_list_line_custom=custom,
                                   parse_list_line_custom_first=first)
                     for custom in (None, refusing) for first in (False, True)][:-1 if family not in ("unix", "windows") else None]
    for seed in seeds:
        raw = seed if isinstance(seed, bytes) else seed.encode()
        cases = mutations(raw) + [raw]
        if with_pairs:
            cases += pair_mutations(raw, with_pairs)
        for m in cases:
            part.evaluations += 1
            try:
                if family in ("unix", "windows"):
                    for other in configs[1:]:
                        try:
                            other.parse_list_line(m)
                        except ValueError:
                            pass
                    res = c.parse_list_line(m)
                    ok = (isinstance(res, tuple) and len(res) == 2 and isinstance(res[0], pathlib.PurePosixPath)
                          and isinstance(res[1], dict) and all(isinstance(k, str) and isinstance(v, (str, int))
                                                               for k, v in res[1].items()))
                    if ok:
                        # ... and the facts are what they say they are: counts are decimal numbers, the time is the
                        # 14-digit form every other part of the library (and MLSx) uses, the type is one of the known ones
                        info = res[1]
                        num = lambda v: isinstance(v, int) or (isinstance(v, str) and v.isascii() and v.isdigit())     # noqa
                        ok = (all(num(info[k]) for k in ("size", "unix.links") if k in info)
                              and ("modify" not in info or (isinstance(info["modify"], str) and len(info["modify"]) == 14
                                                            and info["modify"].isascii() and info["modify"].isdigit()))
                              and info.get("type", "file") in ("file", "dir", "link", "unknown"))
                    if not ok:
                        part.violation({"kind": "ill-typed-result", "family": family}, {"line": repr(m), "result": repr(res)},
                                       replay={"parser": [family, m.decode("latin-1")]})
                elif family == "mlsx":
                    res = c.parse_mlsx_line(m)
                    if not (isinstance(res[0], pathlib.PurePosixPath) and isinstance(res[1], dict)):
                        part.violation({"kind": "ill-typed-result", "family": family}, {"line": repr(m)},
                                       replay={"parser": [family, m.decode("latin-1")]})
                else:
                    s = m.decode("utf-8", "replace")
                    if family == "pasv":
                        ip, port = c.parse_pasv_response(s)
                        ok = isinstance(ip, str) and isinstance(port, int)
                    elif family == "epsv":
                        ip, port = c.parse_epsv_response(s)
                        ok = ip is None and isinstance(port, int)
                    else:
                        ok = isinstance(c.parse_directory_response(s), pathlib.PurePosixPath)
                    if not ok:
                        part.violation({"kind": "ill-typed-result", "family": family}, {"line": repr(m)},
                                       replay={"parser": [family, m.decode("latin-1")]})
            except ValueError:
                pass
            except Exception as exc:
                if family in ("unix", "windows"):
                    # for listing lines always the documented ValueError
                    part.violation({"kind": "wrong-exception-type", "family": family, "exc": type(exc).__name__},
                                   {"line": repr(m), "exc": repr(exc)}, replay={"parser": [family, m.decode("latin-1")]})
            except report.ItemTimeout:
                # the wall-clock budget of this work item ran out inside this very call: it does not return
                part.violation({"kind": "parser-does-not-return", "family": family},
                               {"line": repr(m), "budget_s": ITEM_BUDGET}, replay={"parser": [family, m.decode("latin-1")]})
                return part
            except BaseException as exc:      # noqa
                part.violation({"kind": "base-exception", "family": family, "exc": type(exc).__name__},
                               {"line": repr(m), "exc": repr(exc)}, replay={"parser": [family, m.decode("latin-1")]})
        part.states.add(report.fp([family, raw.decode("latin-1")]))
        part.nontrivial.add(report.fp([family, raw.decode("latin-1")]))
    part.transitions = part.evaluations
    part.sample({"family": family, "seed": repr(seeds[0]), "mutations": part.evaluations}, limit=1)
    return part


# -- client end to end -------------------------------------------------------------
def client_case(case):
    """case: op, replies (latin-1 strings), listing"""
    w = World()
    a = w.aioftp
    fs = FakeServer({k: v.encode("latin-1") for k, v in case.get("replies", {}).items()},
                    listing=case.get("listing", "").encode("latin-1"))
    for k, v in case.get("listing_by_arg", {}).items():
        fs.listing_by_arg[k] = v.encode("latin-1")
    for k, v in case.get("replies_by_line", {}).items():
        fs.replies_by_line[k] = v.encode("latin-1")
    if "completion" in case:
        fs.completion = None if case["completion"] is None else case["completion"].encode("latin-1")
    result = {}
    tmp = None
    w.net.blackholes = set(case.get("blackholes", ()))
    try:
        w.run(fs.start())

        if case["op"] == "download-tree":
            # judged on a real file system ("..": the in-memory backend would keep it as a literal name)
            from vf import backends as _b
            tmp = _b.TempDir()

        async def main():
            c = a.Client(path_io_factory=a.MemoryPathIO if tmp is None else a.PathIO, **case.get("client_kwargs", {}))
            try:
                await c.connect("127.0.0.1", 2121)
                await c.login("u", "p")
                op = case["op"]
                if op == "list":
                    result["value"] = [(str(p), dict(i)) for p, i in await c.list("/d", raw_command=case.get("raw"))]
                elif op == "list-recursive":
                    result["value"] = [(str(p), dict(i)) for p, i in await c.list("/d", recursive=True,
                                                                                 raw_command=case.get("raw"))]
                elif op == "stat":
                    result["value"] = dict(await c.stat("/d/x"))
                elif op == "pwd":
                    result["value"] = str(await c.get_current_directory())
                elif op == "download":
                    async with c.download_stream("/d/x") as st:
                        result["value"] = (await st.read()).decode("latin-1")
                elif op == "exists":
                    result["value"] = await c.exists("/d/x")
                elif op == "download-tree":
                    # the whole listed directory is fetched into x/y/dest below a scratch directory
                    import os
                    root = tmp.path
                    try:
                        await c.download("/d", root / "x" / "y" / "dest", write_into=True)
                    finally:
                        made = []
                        for dirpath, dirnames, filenames in os.walk(root):
                            for n in dirnames + filenames:
                                made.append("/" + os.path.relpath(os.path.join(dirpath, n), root))
                        result["local_paths"] = sorted(made)
                    result["value"] = result["local_paths"]
                result["outcome"] = "returned"
            except Exception as exc:
                result["outcome"] = "raised"
                result["exc"] = type(exc).__name__
                result["exc_is_value_error"] = isinstance(exc, ValueError)
            finally:
                c.close()

        t = w.spawn(main())
        problems = []
        try:
            w.settle(until=t.done)
            if not t.done():
                if fs.owes_nothing() and not fs.data_writers:
                    # every command has got a complete, well-formed final reply and the client still waits
                    problems.append({"kind": "client-waits-although-the-reply-is-complete"})
                # the server has nothing more to say: it hangs up; the client must then finish
                with Running(w.loop):
                    fs.hang_up()
                w.settle(until=t.done)
            if not t.done():
                problems.append({"kind": "client-hangs"})
                t.cancel()
                w.settle(0)
            elif t.exception() is not None:
                problems.append({"kind": "client-base-exception", "exc": repr(t.exception())})
        except Livelock:
            problems.append({"kind": "client-loops-forever"})
        return problems, result, w.net.n_events
    finally:
        try:
            w.close()
        except Exception:
            pass
        try:
            if tmp is not None:
                tmp.cleanup()
        except Exception:
            pass


def client_work(cases):
    part = report.Partial()
    for case in cases:
        problems, result, nev = client_case(case)
        part.evaluations += 1
        part.traces += 1
        part.transitions += nev
        k = report.fp(case)
        part.states.add(k)
        part.nontrivial.add(k)
        part.outcomes[report.fp([case["op"], result.get("outcome"), result.get("exc")])] += 1
        # a listing line is either reported as an entry or raised (ValueError) - never silently dropped
        if not problems and case["op"].startswith("list") and case.get("expect_lines") is not None:
            if result.get("outcome") == "returned":
                if len(result["value"]) != case["expect_lines"]:
                    problems.append({"kind": "listing-line-dropped-or-invented", "got": len(result["value"]),
                                     "lines": case["expect_lines"]})
            elif not result.get("exc_is_value_error") and (case.get("strict_value_error") or result.get("exc") not in
                                                           ("StatusCodeError", "ConnectionResetError")):
                problems.append({"kind": "listing-error-not-valueerror", "exc": result.get("exc")})
        if case.get("inside"):
            inside = case["inside"]
            parents = {"/"} | {inside[:i] for i in range(1, len(inside)) if inside[i] == "/"}
            out = [q for q in result.get("local_paths", []) if q != inside and not q.startswith(inside + "/") and q not in parents]
            if out:
                problems.append({"kind": "written-outside-the-download-directory", "paths": out})
        for p in problems[:1]:
            part.violation({"kind": p["kind"], "op": case["op"], "mutated": case.get("mutated")},
                           {"problem": p, "case": case, "result": result}, replay={"client": case})
        part.sample({"case": case, "result": {k: (v if k != "value" else repr(v)[:80]) for k, v in result.items()}}, limit=1)
    return part


def client_items(tier):
    cases = []
    L = lambda b: b.decode("latin-1")   # noqa
    small = lambda seed: [m for m in mutations(seed) if True]   # noqa
    step = 1 if tier != "quick" else 7
    # mutated listing lines between two good ones
    good1, good2 = UNIX[0], UNIX[1]
    for fam, seeds, raw in (("unix", UNIX[:3], "LIST"), ("windows", WINDOWS[:1], "LIST"), ("mlsx", MLSX[:2], "MLSD")):
        for seed in seeds:
            ms = mutations(seed)
            for m in ms[::step]:
                if b"\n" in m or b"\r" in m:
                    continue
                name = m.strip()
                if fam == "mlsx":
                    body = MLSX[0] + b"\r\n" + m + b"\r\n" + MLSX[1] + b"\r\n"
                else:
                    body = good1 + b"\r\n" + m + b"\r\n" + good2 + b"\r\n"
                nlines = 3 if m.strip(b" \t") or fam == "mlsx" else None
                # entries named '.' / '..' are skipped by design; a line without any name is not one of them: it is
                # reported (ValueError), not dropped.  Only white space: no expectation (as for LIST)
                dotted = (m.rstrip().endswith((b" .", b" ..")) or m.strip() in (b".", b"..")
                          or (fam == "mlsx" and not m.strip()))
                cases.append({"op": "list", "raw": raw, "listing": L(body), "mutated": fam + "-line",
                              "expect_lines": None if dotted else 3})
    # lines that end before the name (a truncated listing): an entry without a name is not an entry named '.'
    for m in (b"-rw-r--r-- 1 none none 10 Jan 15 12:30", b"-rw-r--r-- 1 none none 10 Jan 15 12:30 ",
              b"-rw-r--r-- 1 none none 10 Jan 15 12:3", b"drwxr-xr-x 2 none none 4096 Mar  3  2019",
              b"01/15/2024  12:30 PM    <DIR> ", b"01/15/2024  12:30 PM    <DIR>          ",
              b"01/15/2024  12:30 PM             1,024 "):
        cases.append({"op": "list", "raw": "LIST", "listing": L(good1 + b"\r\n" + m + b"\r\n" + good2 + b"\r\n"),
                      "mutated": "nameless-line", "expect_lines": 3})
    # a line that cannot be parsed, and a server that answers the broken-off transfer with 426 / 451 / not at all: the
    # caller gets the ValueError that names the line, whatever the server says afterwards
    for raw, good, bad in (("MLSD", MLSX[0], b"type=file;size=3;"), ("LIST", UNIX[0], b"-rw-r--r-- 1 none none 10 Jan 15 12:30"),
                           ("MLSD", MLSX[0], b"garbage"), ("LIST", UNIX[0], b"garbage line")):
        for completion in ("426 data connection lost\r\n", "451 failed\r\n", "226-wait\r\n", None):
            cases.append({"op": "list", "raw": raw, "listing": L(good + b"\r\n" + bad + b"\r\n" + good + b"\r\n"),
                          "mutated": "bad-line-and-no-clean-completion", "expect_lines": 3, "completion": completion,
                          "strict_value_error": True})
    # a passive-mode answer that names an address which never answers: a client with time-outs configured gives up
    for verb, rep in (("EPSV", "229 ok (|||9|)\r\n"), ("PASV", "227 ok (127,0,0,1,0,9)\r\n")):
        replies = {verb: rep}
        if verb == "PASV":
            replies["EPSV"] = "500 no\r\n"
        for op in ("list", "download", "stat"):
            cases.append({"op": op, "raw": None, "replies": dict(replies), "listing": L(MLSX[0] + b"\r\n"),
                          "mutated": "passive-answer-to-a-black-hole", "blackholes": [9],
                          "client_kwargs": {"connection_timeout": 1, "socket_timeout": 1}})
    # MLSD lines without a pathname
    for m in (b"type=file;size=3;", b"Type=file;Size=3;Modify=20240115123000;", b"type=file;size=3; ", b"garbage", b";",
              b"type=dir;"):
        cases.append({"op": "list", "raw": "MLSD", "listing": L(MLSX[0] + b"\r\n" + m + b"\r\n" + MLSX[1] + b"\r\n"),
                      "mutated": "nameless-mlsd-line", "expect_lines": 3})
    # lines that look like the `total <blocks>` header of `ls -l` - alone, and with a whole entry behind them
    for m in (b"total 8", b"total 0", b"total 8 -rw-r--r-- 1 ftp ftp 3 Jan  1 00:00 lost.txt", b"total 12 junk",
              b"total 3x", b"Total 8", b"total"):
        cases.append({"op": "list", "raw": "LIST", "listing": L(good1 + b"\r\n" + m + b"\r\n" + good2 + b"\r\n"),
                      "mutated": "total-line", "expect_lines": 3})
    # over-long lines (beyond the 64 KiB stream limit) in listings and in replies
    for n in (65530, 65536, 65537, 70000, 140000):
        big = b"Type=file;Size=1; " + b"n" * n
        cases.append({"op": "list", "raw": "MLSD", "listing": L(MLSX[0] + b"\r\n" + big + b"\r\n" + MLSX[1] + b"\r\n"),
                      "mutated": "over-long-mlsd-line", "expect_lines": 3})
        bigu = b"-rw-r--r-- 1 none none 10 Jan 15 12:30 " + b"n" * n
        cases.append({"op": "list", "raw": "LIST", "listing": L(UNIX[0] + b"\r\n" + bigu + b"\r\n" + UNIX[1] + b"\r\n"),
                      "mutated": "over-long-list-line", "expect_lines": 3})
        cases.append({"op": "pwd", "raw": None, "replies": {"PWD": '257 "/' + "p" * n + '"\r\n'}, "listing": "",
                      "mutated": "over-long-reply"})
        cases.append({"op": "stat", "raw": None, "replies": {"MLST": "250-start\r\n Type=file; " + "x" * n + "\r\n250 end\r\n"},
                      "listing": "", "mutated": "over-long-reply"})
    # '.' and '..' entries, recursion
    dots = (b"drwxr-xr-x 2 n n 0 Jan 15 12:30 .\r\ndrwxr-xr-x 2 n n 0 Jan 15 12:30 ..\r\n"
            b"drwxr-xr-x 2 n n 0 Jan 15 12:30 sub\r\n-rw-r--r-- 1 n n 3 Jan 15 12:30 f\r\n")
    mdots = (b"Type=cdir; .\r\nType=pdir; ..\r\nType=dir; sub\r\nType=file;Size=3; f\r\n")
    for op in ("list", "list-recursive"):
        cases.append({"op": op, "raw": "LIST", "listing": L(dots), "listing_by_arg": {"/d/sub": L(dots.replace(b"sub", b"deep")),
                                                                                 "/d/sub/deep": L(b"")},
                      "mutated": "dot-entries", "expect_lines": 2 if op == "list" else None})
        cases.append({"op": op, "raw": "MLSD", "listing": L(mdots), "listing_by_arg": {"/d/sub": L(b"Type=cdir; .\r\nType=pdir; ..\r\n")},
                      "mutated": "dot-entries", "expect_lines": 2 if op == "list" else None})
    # names in a listing that are not plain names: whatever the client makes of them, nothing is written outside the
    # directory the caller asked the download to go to
    for raw, mk in (("MLSD", lambda n: b"Type=file;Size=3; " + n), ("LIST", lambda n: b"-rw-r--r-- 1 n n 3 Jan 15 12:30 " + n)):
        for bad in (b"../../evil", b"../evil", b"/abs", b"a/../../../evil", b"..", b"sub/../../evil2", b"./../evil3", b"ok/deep"):
            body = mk(b"good") + b"\r\n" + mk(bad) + b"\r\n"
            rep = {"MLST": "250-s\r\n Type=file;Size=3; f\r\n250 e\r\n"}
            if raw == "LIST":
                rep["MLSD"] = "500 no\r\n"
            cases.append({"op": "download-tree", "raw": raw, "replies": rep, "listing": L(body), "mutated": "traversal-name",
                          "replies_by_line": {"MLST /d": "250-s\r\n Type=dir; d\r\n250 e\r\n"}, "inside": "/x/y/dest"})
    # mutated control replies
    for verb, seeds in (("greeting", ["220 hello\r\n", "220-a\r\n b\r\n220 c\r\n"]), ("USER", ["331 pw\r\n"]),
                        ("PASS", ["230 ok\r\n"]), ("TYPE", ["200 ok\r\n"]), ("PWD", [s + "\r\n" for s in D257]),
                        ("EPSV", ["229 ok (|||{port}|)\r\n"]), ("PASV", ["227 ok (127,0,0,1,{p1},{p2})\r\n"]),
                        ("MLST", ["250-start\r\n Type=file;Size=3; x\r\n250 end\r\n"])):
        for seed in seeds:
            ms = mutations(seed.encode("latin-1"))
            for m in ms[::step]:
                op = {"PWD": "pwd", "MLST": "stat", "EPSV": "list", "PASV": "list"}.get(verb, "list")
                rep = {verb: L(m)}
                if verb == "PASV":
                    rep["EPSV"] = "500 no\r\n"
                cases.append({"op": op, "raw": None, "replies": rep, "listing": L(MLSX[0] + b"\r\n"),
                              "mutated": verb + "-reply"})
    return [cases[i:i + 40] for i in range(0, len(cases), 40)], len(cases)


# -- server side --------------------------------------------------------------------
HEALTHY = ["EPSV", "@data", "RETR o", "PWD", "MKD hdir", "MLST hdir"]
VALID = ["USER anonymous", "PASS x", "CWD d", "MKD n", "RETR d/f", "STOR n", "REST 5", "TYPE I", "EPSV", "PASV", "LIST",
         "MLSD d", "RNFR g", "RNTO h", "DELE g", "ABOR", "QUIT", "SYST", "PWD", "APPE g", "MLST g", "RMD e", "CDUP",
         "PBSZ 0", "PROT P"]


ITEM_BUDGET = float(__import__("os").environ.get("VERIF_C19_ITEM_BUDGET", "120"))     # wall-clock seconds per work item
STALL_LIMIT = float(__import__("os").environ.get("VERIF_STALL_LIMIT", "6"))


def hostile_lines(tier):
    out = []
    for b in range(256):
        out.append(bytes([b]) + b"\r\n")
        out.append(b"CWD " + bytes([b]) + b"\r\n")
    out += [b"\xc3\r\n", b"\xe2\x82\r\n", b"\xff\xfe\xfd\r\n", b"USER \xc3\x28\r\n", b"\r", b"\n", b"\r\r\n", b"A\rB\r\n",
            b"PWD\n", b"PWD\r", b"\0\0\0\r\n", b" \r\n", b"  PWD\r\n", b"PWD \r\n"]
    for n in (2 ** 16 - 2, 2 ** 16 - 1, 2 ** 16, 2 ** 16 + 1, 2 ** 16 + 2, 2 ** 17):
        out.append(b"A" * n + b"\r\n")
        out.append(b"CWD " + b"a" * n + b"\r\n")
        out.append(b"x" * n)
    # paths of very many components (still below the line limit): the time one command takes is time no other session
    # is served in
    for verb in (b"CWD", b"MKD", b"MLST", b"DELE", b"RNFR", b"STOR", b"RMD", b"LIST"):
        for n in (8000, 32000):
            out.append(verb + b" " + b"a/" * n + b"\r\n")
            out.append(verb + b" /" + b"../" * n + b"x\r\n")
    for v in VALID:
        raw = v.encode()
        for k in range(len(raw) + 1):
            out.append(("eof", raw[:k]))
        ms = mutations(raw)
        for m in ms[::(5 if tier == "quick" else 1)]:
            out.append(m + b"\r\n")
    return out


def solo_healthy():
    rig = Rig(tree={"d": {"f": b"0123456789"}, "g": b"x", "e": {}, "o": b"OTHER"}, users=_users,
              server_kwargs={"block_size": 4, "maximum_connections": SERVER_LIMIT})
    try:
        rig.ev(0, "@connect")
        rig.ev(0, "USER anonymous")
        for e in HEALTHY:
            rig.ev(0, e)
        s = rig.sessions[0]
        return [[c for c, _ in r] for _, r in s.transcript], s.data.received
    finally:
        rig.close()


def _users(a, base):
    return [a.User("alice", "pw", base_path=base, maximum_connections=1), a.User(base_path=base)]


STATES = {"anon": ["USER anonymous"], "fresh": [], "pending": ["USER alice"], "alice": ["USER alice", "PASS pw"],
          # ... with a data connection made, waiting for whatever transfer command comes
          "anon-data": ["USER anonymous", "EPSV", "@data"]}
# transfer commands whose arguments are garbage (a directory, nothing at all, a path through a file, an offset into a
# file that is not there, bytes that are no text), for the state that has a data connection ready
GARBAGE_TRANSFERS = [b"STOR d", b"STOR e", b"APPE d", b"RETR d", b"RETR missing", b"STOR missing/x", b"APPE g/x", b"STOR g/x",
                     b"REST 5\r\nSTOR nosuch", b"REST 5\r\nAPPE nosuch", b"REST 99\r\nRETR g", b"LIST missing", b"MLSD g",
                     b"STOR", b"RETR", b"APPE ", b"STOR \xff", b"RETR \xc3", b"STOR /", b"RETR /", b"STOR ..", b"LIST " + b"a/" * 300,
                     b"STOR " + b"x" * 70000]
SERVER_LIMIT = 3


def server_work(item):
    lines, solo, state = item
    part = report.Partial()
    for line in lines:
        rig = Rig(n_sessions=2, tree={"d": {"f": b"0123456789"}, "g": b"x", "e": {}, "o": b"OTHER"}, users=_users,
                  server_kwargs={"block_size": 4, "maximum_connections": SERVER_LIMIT})
        problems = []
        try:
            w = rig.world
            rig.ev(0, "@connect")
            rig.ev(0, "USER anonymous")
            rig.ev(1, "@connect")
            for e in STATES[state]:
                rig.ev(1, e)
            hostile, healthy = rig.sessions[1], rig.sessions[0]
            rig.ev(0, HEALTHY[0])
            rig.ev(0, HEALTHY[1])
            tree_before = rig.snapshot()
            t_wall = time.monotonic()
            try:
                with Running(w.loop):
                    if isinstance(line, tuple):
                        hostile.ctl.send(line[1])
                        hostile.ctl.close()
                    else:
                        hostile.ctl.send(line)
                w.settle()
                stalled = time.monotonic() - t_wall
                if stalled > STALL_LIMIT:
                    # one event loop: while it works on this line nobody else is served (wall-clock, a generous bound:
                    # the repaired tree needs a fraction of a second)
                    problems.append({"kind": "one-line-keeps-the-server-busy", "seconds": round(stalled, 1),
                                     "line_length": len(line) if not isinstance(line, tuple) else len(line[1])})
                if state == "anon-data" and not isinstance(line, tuple) and hostile.data is not None:
                    # a transfer command that was let through to its worker (1xx) and then failed has used the data
                    # connection up: the peer is not left waiting on it for the rest of the session
                    got = [c for c, _ in (hostile.ctl.take_replies() or [])]
                    if any(c[:1] == "1" for c in got) and any(c[:1] in "45" for c in got) and not hostile.data.eof:
                        problems.append({"kind": "data-connection-of-a-failed-transfer-left-open", "codes": got})
                if isinstance(line, tuple) and rig.snapshot() != tree_before:
                    # the stream ended before the line did: what the peer meant to send is unknown (`DELE g` may be
                    # the beginning of `DELE g.bak`) - a command that was cut off is not carried out
                    problems.append({"kind": "command-cut-off-by-end-of-stream-carried-out", "sent": line[1].decode("latin-1")})
                for e in HEALTHY[2:]:
                    rig.ev(0, e)
                if not isinstance(line, tuple):
                    with Running(w.loop):
                        hostile.peer.vanish()
                w.settle()
            except Livelock:
                problems.append({"kind": "server-loops-forever"})
            if w.livelocked:
                problems.append({"kind": "server-loops-forever", "how": w.livelocked})
            tr = [[c for c, _ in r] for _, r in healthy.transcript]
            if not problems and (tr != solo[0] or healthy.data is None or healthy.data.received != solo[1]):
                problems.append({"kind": "healthy-session-disturbed", "got": tr, "solo": solo[0]})
            if not problems:
                # the hostile session's resources are released: its per-user and server-wide slots are free again
                healthy.peer.vanish()
                w.settle(0)
                probes = []
                for k in range(SERVER_LIMIT + 1):
                    s = Session(w, name=f"fresh{k}")
                    probes.append(s)
                    r = s.connect()
                    code = r[-1][0] if r else None
                    if code != ("220" if k < SERVER_LIMIT else "421"):
                        problems.append({"kind": "server-slot-not-released", "k": k, "code": code})
                        break
                if not problems:
                    r = probes[0].cmd("USER alice")
                    if not r or r[-1][0] != "331":
                        problems.append({"kind": "user-slot-not-released", "codes": [c for c, _ in (r or [])]})
                    r = probes[1].login()
                    if not r or r[-1][0] != "230":
                        problems.append({"kind": "fresh-login-failed", "codes": [c for c, _ in (r or [])]})
                for s in probes:
                    s.peer.vanish()
                w.settle(0)
                for p in ledger.released_problems(w, rig.server):
                    problems.append(p)
                for p in ledger.closed_problems(w, rig.server):
                    problems.append(p)
            part.evaluations += 1
            part.traces += 1
            part.transitions += w.net.n_events
            k = report.fp(repr(line)[:200] + str(len(line)) + state)
            part.states.add(k)
            part.nontrivial.add(k)
            for p in problems[:1]:
                shape = "eof-prefix" if isinstance(line, tuple) else ("long" if len(line) > 1000 else "line")
                part.violation({"kind": p["kind"], "shape": shape, "state": state},
                               {"problem": p, "line": repr(line)[:120], "len": len(line)},
                               replay={"server": [shape, state, (line[1] if isinstance(line, tuple) else line).decode("latin-1")]})
        finally:
            rig.close()
        if any(v["sig"]["kind"] == "server-loops-forever" for v in part.violations):
            break       # every further line of this chunk would burn the watchdog time again
    part.sample({"hostile_lines": [repr(l)[:60] for l in lines[:3]], "login_state": state}, limit=1)
    return part


# -- the client's parsers always return (no input makes them take more than linear time) -----------------------------
def pump_inputs(tier):
    """every seed with a long run of one token class pumped in at every token boundary, followed by a character that
    makes the match fail late"""
    out = []
    runs = [30, 400] if tier == "quick" else [30, 400, 20000]
    tokens = ["1", " ", ",", "(", ")", "|", '"', "a", "1,", " 1", "1 ", '""', "-", ";", "=", "/"]
    fams = [("pasv", PASV), ("epsv", EPSV), ("d257", D257), ("unix", [u.decode() for u in UNIX]),
            ("windows", [x.decode() for x in WINDOWS]), ("mlsx", [m.decode() for m in MLSX])]
    for fam, seeds in fams:
        for seed in seeds[:3]:
            cuts = sorted({0, len(seed)} | {i for i, ch in enumerate(seed) if not ch.isalnum()}
                          | {i + 1 for i, ch in enumerate(seed) if not ch.isalnum()})
            for cut in cuts:
                for tok in tokens:
                    for n in runs:
                        for tail in ("", "x", "("):
                            out.append((fam, seed[:cut] + tok * n + tail + seed[cut:]))
                            if tail == "x":
                                out.append((fam, seed[:cut] + tok * n + tail))          # ... and nothing after it
    return out


def _pump_worker(conn, inputs, src):
    import sys
    sys.path.insert(0, src)
    import aioftp
    c = aioftp.Client(path_io_factory=aioftp.MemoryPathIO)
    for idx, (fam, text) in inputs:
        conn.send(("start", idx))
        try:
            if fam == "pasv":
                c.parse_pasv_response(text)
            elif fam == "epsv":
                c.parse_epsv_response(text)
            elif fam == "d257":
                c.parse_directory_response(text)
            elif fam == "mlsx":
                c.parse_mlsx_line(text.encode())
            else:
                c.parse_list_line(text.encode())
        except Exception:
            pass
        conn.send(("done", idx))
    conn.send(("end", None))


def parser_termination(tier):
    import multiprocessing as mp
    import os
    import aioftp
    src = os.path.dirname(os.path.dirname(aioftp.__file__))
    part = report.Partial()
    inputs = list(enumerate(pump_inputs(tier)))
    budget = 10.0                    # seconds of wall clock for ONE input of at most ~20 KB; linear parsers need microseconds
    pos = 0
    ctx = mp.get_context("fork")
    while pos < len(inputs):
        parent, child = ctx.Pipe()
        proc = ctx.Process(target=_pump_worker, args=(child, inputs[pos:], src), daemon=True)
        proc.start()
        current = None
        while True:
            if not parent.poll(budget):
                # no progress for `budget` seconds on one input
                proc.kill()
                proc.join()
                fam, text = inputs[current][1] if current is not None else ("?", "")
                part.violation({"kind": "client-parser-does-not-return", "family": fam},
                               {"input": text[:80] + ("..." if len(text) > 80 else ""), "length": len(text),
                                "budget_s": budget}, replay={"pump": [fam, text]})
                pos = (current if current is not None else pos) + 1
                break
            msg, idx = parent.recv()
            if msg == "start":
                current = idx
            elif msg == "done":
                part.evaluations += 1
                pos = idx + 1
            else:
                proc.join()
                pos = len(inputs)
                break
        if len(part.violations) >= 5:
            break
    part.transitions += part.evaluations
    part.counters["pumped_parser_inputs"] = len(inputs)
    k = report.fp(["pump", len(inputs)])
    part.states.add(k)
    part.nontrivial.add(k)
    return part


def run(tier, seed, t0):
    pw = 12 if tier == "quick" else 0
    parser_items = [("unix", [s], pw) for s in UNIX] + [("windows", [s], pw) for s in WINDOWS] + \
                   [("mlsx", [s], pw) for s in MLSX] + [("pasv", PASV, 0), ("epsv", EPSV, 0), ("d257", D257, 0)]
    if tier != "quick":
        parser_items = [(f, s, 40 if f in ("unix", "windows", "mlsx") else 0) for f, s, _ in parser_items]
    citems, ncases = client_items(tier)
    solo = solo_healthy()
    hl = hostile_lines(tier)
    sitems = [(hl[i:i + 30], solo, "anon") for i in range(0, len(hl), 30)]
    # the structural part of the hostile alphabet from every other login state (no user yet, USER sent and password
    # pending, logged in as a user with a connection limit)
    core = [l for l in hl if isinstance(l, tuple) and l[1][:4] in (b"", b"P", b"PA", b"PAS", b"PASS", b"USER", b"CWD ")]
    core += [l for l in hl if not isinstance(l, tuple) and (len(l) <= 4 or len(l) > 1000 or l[:1] in (b"\xc3", b"\xe2", b"\xff"))]
    core += [b"PASS \xff\xfe\r\n", b"PASS " + b"x" * (2 ** 16 + 5) + b"\r\n", ("eof", b"PASS p"), b"PASS wrong\r\n"]
    for state in ("fresh", "pending", "alice"):
        sitems += [(core[i:i + 30], solo, state) for i in range(0, len(core), 30)]
    gt = [g + b"\r\n" for g in GARBAGE_TRANSFERS] + [("eof", g) for g in GARBAGE_TRANSFERS[:8]]
    sitems += [(gt[i:i + 8], solo, "anon-data") for i in range(0, len(gt), 8)]
    def hung(kind):
        def on_timeout(item):
            # a synchronous endless loop in the code under test: the simulated loop never gets control back
            part_ = report.Partial()
            what = repr(item)[:300]
            part_.violation({"kind": kind + "-does-not-return"}, {"item": what, "budget_s": ITEM_BUDGET},
                            replay={"hung": [kind, what]})
            return part_
        return on_timeout
    parts = report.pmap(parser_work, parser_items, budget=ITEM_BUDGET, on_timeout=hung("parser")) \
        + report.pmap(client_work, citems, budget=ITEM_BUDGET, on_timeout=hung("client")) \
        + report.pmap(server_work, sitems, budget=ITEM_BUDGET, on_timeout=hung("server"))
    parts.append(parser_termination(tier))
    part = report.merge_all(parts)
    bounds = {"parser_seeds": {"unix": len(UNIX), "windows": len(WINDOWS), "mlsx": len(MLSX), "pasv": len(PASV), "epsv": len(EPSV),
                               "257": len(D257)}, "mutation_alphabet": len(GAMMA),
              "termination": "every parser seed with runs of 30/400%s repetitions of 16 token classes pumped in at every token "
                             "boundary + a late-failing tail; each input in a child process with a 10 s wall-clock budget"
                             % ("" if tier == "quick" else "/20000"),
              "operators": ["delete 1..6", "insert", "replace", "truncate head/tail", "swap tokens", "duplicate token"],
              "pairs": "window %d" % (12 if tier == "quick" else 40), "client_e2e_cases": ncases,
              "hostile_lines": len(hl), "hostile_login_states": list(STATES), "limits": "server 3, user alice 1", "line_lengths": "2^16-2 .. 2^16+2, 2^17 (with and without line end)"}
    return report.finish(
        PID, tier, seed, "model_checking", part, t0,
        rule="parsers: every single mutation (and windowed pairs) of every seed; client: one real-client session per mutated "
             "reply stream / listing against a scripted raw server that hangs up when it has nothing more to send (a client "
             "still pending after that is a hang); server: one hostile line per execution next to a healthy session, then "
             "fresh login, ledger and server.close().",
        bounds=bounds,
        assumptions=["environment model SimLoop/SimNet", "a scripted server that goes silent eventually closes the connection"])


def replay(path):
    data = json.loads(open(path).read())
    rp = data["replay"]
    if "client" in rp:
        problems, result, _ = client_case(rp["client"])
        print(json.dumps({"problems": problems, "result": result}, indent=1, default=repr))
        return 1 if problems else 0
    if "pump" in rp:
        import multiprocessing as mp
        import os
        import aioftp
        src = os.path.dirname(os.path.dirname(aioftp.__file__))
        ctx = mp.get_context("fork")
        parent, child = ctx.Pipe()
        proc = ctx.Process(target=_pump_worker, args=(child, [(0, tuple(rp["pump"]))], src), daemon=True)
        proc.start()
        proc.join(6)
        hung = proc.is_alive()
        if hung:
            proc.kill()
        print(json.dumps({"input_length": len(rp["pump"][1]), "returned_within_6s": not hung}))
        return 1 if hung else 0
    if "parser" in rp:
        fam, text = rp["parser"]
        part = report.pmap(parser_work, [(fam, [text.encode("latin-1")], 0)], budget=60, on_timeout=lambda it: None)[0]
        if part is None:
            print(json.dumps({"family": fam, "line": text, "returned_within_60s": False}))
            return 1
        vs = [v for v in part.violations if v["replay"] == {"parser": [fam, text]}]
        print(json.dumps([v["detail"] for v in vs], indent=1, default=repr))
        return 1 if vs else 0
    print(json.dumps(data["detail"], indent=1, default=repr))
    return 1
