"""C06 Reply framing: what the server encodes is what the client decodes.

E3: the real Server.write_response encodes (code, lines, mode); the bytes are
fed to the real Client.parse_response / command through a StreamReader in every
single and double segmentation and byte-by-byte; reply *pairs* check that a
mis-framed reply desynchronises the next one; foreign-code continuation lines
must raise StatusCodeError and leave the stream usable; Code.matches is checked
on all codes x all masks.  DESIGN.md §5 C06.
"""
import asyncio
import itertools
import json

from vf import report
from vf.world import World, Hang

PID = "C06"
LINES = ["", "a", "a b", " lead", "-", "-x", "12", "123", "1234", "250", "250 x", "250-x", "251 y", "é", "日本", "x;y=z",
         # characters that str.splitlines() treats as line boundaries but the wire format does not
         "a\x0cb", "a\x0bb", "a\x1db", "a\x85b", "a\u2028b", "a\rb"]
REDUCED = ["", "a", " lead", "-x", "250 x", "250-x", "251 y", "é"]
# text that is not in a Unicode normalisation form (decomposed accents, singletons, compatibility characters, marks out
# of canonical order): the same code points come out as went in
UNI = ["cafe\u0301", "\u212bngstro\u0308m", "\u2126", "\uf900", "a\u0323\u0307", "a\u0307\u0323", "\ufb01", "\u2460",
       "\u1100\u1161", "\u0344", "A\u030a",
       # lines that end in a character str.rstrip() takes although it is no blank
       "name\xa0", "x\u3000", "y\x1f", "z\x85"]
CODES12 = ["100", "150", "200", "211", "226", "250", "257", "331", "421", "451", "500", "550"]


class Sink:
    def __init__(self):
        self.data = bytearray()

    async def write(self, b):
        self.data += b


def encode(world, server, code, lines, mode, container=None):
    sink = Sink()
    arg = list(lines) if len(lines) > 1 else lines[0]
    if container == "tuple":
        arg = tuple(lines)
    elif container == "generator":
        arg = (l for l in list(lines))          # documented type of `lines`: str or any iterable of str
    elif container == "dict-keys":
        arg = {l: None for l in lines}.keys()
    world.run(server.write_response(sink, code, arg, mode))
    return bytes(sink.data)


def expected_info(code, lines, mode):
    """the fixed, documented prefix convention of parse_response: the first character after the code of every
    non-list line is the separator; list-mode body lines keep their leading space"""
    if mode and len(lines) >= 2:
        return ["-" + lines[0]] + [" " + l for l in lines[1:-1]] + [" " + lines[-1]]
    return ["-" + l for l in lines[:-1]] + [" " + lines[-1]]


def decode(world, a, raw, cuts, n_replies, encoding="utf-8"):
    """feed raw in segments; parse n_replies; returns list of (code, info) or ('EXC', repr)"""
    client = a.Client(path_io_factory=a.MemoryPathIO, encoding=encoding)
    world.loop.iterations = 0       # the iteration cap is per decode, the world is reused
    reader = asyncio.StreamReader(loop=world.loop)

    class W:
        def close(self):
            pass

    client.stream = a.ThrottleStreamIO(reader, W(), throttles={})
    results = []

    async def consume():
        for _ in range(n_replies):
            try:
                code, info = await client.parse_response()
                results.append((str(code), list(info)))
            except a.StatusCodeError as exc:
                results.append(("StatusCodeError", [str(c) for c in exc.received_codes]))

    t = world.spawn(consume())
    pos = 0
    for c in list(cuts) + [len(raw)]:
        if c > pos:
            reader.feed_data(raw[pos:c])
            pos = c
            world.settle(0)
    reader.feed_eof()
    world.settle(0)
    if not t.done():
        t.cancel()
        world.settle(0)
        results.append(("HANG", []))
    elif t.exception() is not None:
        results.append(("EXC", [repr(t.exception())]))
    return results


def rstripped(lines):
    # the line protocol right-strips blanks by design (same carve-out as C08): compare modulo trailing blanks - a
    # no-break space, a separator, an ideographic space at the end of a line are text like any other
    return [l.rstrip(" \t\r\n") for l in lines]


def seg_sets(n, mode):
    """cut position lists"""
    yield []
    if mode in ("single", "double"):
        for i in range(1, n):
            yield [i]
    if mode == "double":
        for i, j in itertools.combinations(range(1, n), 2):
            yield [i, j]
    if mode == "bytes":
        yield list(range(1, n))


def work(item):
    kind, payload = item
    import aioftp as a
    part = report.Partial()
    w = World()
    try:
        server = a.Server()
        if kind == "single":
            # all 1000 codes, single line, every line of the alphabet
            for code in payload:
                for line in LINES:
                    raw = encode(w, server, code, [line], False)
                    for cuts in ([], [3], [4], list(range(1, len(raw)))):
                        res = decode(w, a, raw, cuts, 1)
                        part.evaluations += 1
                        want = [(code, rstripped(expected_info(code, [line], False)))]
                        if res != want:
                            part.violation({"kind": "single-line", "line": line}, {"code": code, "raw": raw.decode(),
                                                                                   "got": res, "want": want},
                                           replay={"single": [code, line]})
                part.states.add(code)
        elif kind == "multi":
            code, n, mode = payload[:3]
            raw = b""
            alpha = LINES if n <= 2 else (REDUCED if n <= 4 else ["a", " lead", "250 x", "-x"])
            if len(payload) > 3:
                alpha = UNI + ["a"] if n <= 2 else UNI[:4] + UNI[-2:] + ["a"]
            for lines in itertools.product(alpha, repeat=n):
                if mode and n < 2:
                    continue
                raw = encode(w, server, code, list(lines), mode)
                if len(payload) <= 3 and n <= 2 and len(set(lines)) == len(lines):
                    # the same reply whatever kind of iterable the lines come in
                    for container in ("tuple", "generator", "dict-keys"):
                        try:
                            other = encode(w, server, code, list(lines), mode, container)
                        except Exception as exc:
                            other = repr(exc).encode()
                        if other != raw:
                            part.violation({"kind": "reply-depends-on-the-container-of-its-lines", "container": container},
                                           {"code": code, "lines": lines, "raw": raw.decode(), "other": other.decode("utf-8", "replace")[:200]},
                                           replay={"multi": [code, list(lines), mode, []]})
                            break
                want = [(code, rstripped(expected_info(code, list(lines), mode)))]
                segm = "double" if len(raw) <= 24 else "single"
                for cuts in itertools.chain(seg_sets(len(raw), segm), [list(range(1, len(raw)))]):
                    res = decode(w, a, raw, cuts, 1)
                    part.evaluations += 1
                    if res != want:
                        part.violation({"kind": "multi-line", "mode": "list" if mode else "plain", "n": n},
                                       {"code": code, "lines": lines, "raw": raw.decode(), "cuts": cuts, "got": res,
                                        "want": want}, replay={"multi": [code, list(lines), mode, cuts]})
                        break
                part.states.add(report.fp([code, lines, mode]))
                part.nontrivial.add(report.fp([code, lines, mode]))
            part.sample({"code": code, "n": n, "list_mode": mode, "example_raw": raw.decode()}, limit=1)
        elif kind == "pairs":
            first_code, mode = payload
            for l1 in itertools.product(REDUCED, repeat=2 if mode else 1):
                for l1b in ([()] if mode else [(), ("x",)]):
                    lines1 = list(l1) + list(l1b)
                    if mode and len(lines1) < 2:
                        continue
                    raw1 = encode(w, server, first_code, lines1, mode)
                    for code2, lines2 in (("226", ["done"]), (first_code, ["again"]), ("250", ["a", "b"])):
                        raw2 = encode(w, server, code2, lines2, False)
                        raw = raw1 + raw2
                        want = [(first_code, rstripped(expected_info(first_code, lines1, mode))),
                                (code2, rstripped(expected_info(code2, lines2, False)))]
                        for cuts in ([], [len(raw1)], [len(raw1) - 1], [len(raw1) + 1], list(range(1, len(raw)))):
                            res = decode(w, a, raw, cuts, 2)
                            part.evaluations += 1
                            if res != want:
                                part.violation({"kind": "reply-sequence", "mode": "list" if mode else "plain"},
                                               {"raw": raw.decode(), "cuts": cuts, "got": res, "want": want},
                                               replay={"pair": [first_code, lines1, mode, code2, lines2, cuts]})
                                break
                    part.states.add(report.fp([first_code, lines1, mode]))
                    part.nontrivial.add(report.fp([first_code, lines1, mode]))
        elif kind == "foreign":
            # a continuation line carrying a different code => StatusCodeError, wherever it stands (middle line with a
            # correct terminator, terminator only, both); the next reply must still decode
            for code, other in payload:
                for body in ("x", "", "-y"):
                    shapes = {
                        "middle": f"{code}-start\r\n{other}-{body}\r\n{code} end\r\n",
                        "middle-of-four": f"{code}-start\r\n{code}-ok\r\n{other}-{body}\r\n{code} end\r\n",
                        "terminator": f"{code}-start\r\n{code}-{body}\r\n{other} end\r\n",
                        "both": f"{code}-start\r\n{other}-{body}\r\n{other} tail\r\n",
                    }
                    for shape, text in shapes.items():
                        raw = (text + "226 next\r\n").encode()
                        for cuts in ([], list(range(1, len(raw)))):
                            res = decode(w, a, raw, cuts, 2)
                            part.evaluations += 1
                            if not (len(res) >= 1 and res[0][0] == "StatusCodeError"):
                                part.violation({"kind": "foreign-code-not-rejected", "where": shape},
                                               {"raw": raw.decode(), "got": res}, replay={"foreign": [code, other, body, shape]})
                            elif res[1:] != [("226", [" next"])]:
                                # "... and the next reply on the stream is still decoded correctly": the rejected reply
                                # is consumed to its end, what comes next is the next reply - not the rest of this one
                                part.violation({"kind": "stream-desynchronised-after-rejection", "where": shape},
                                               {"raw": raw.decode(), "got": res}, replay={"foreign": [code, other, body, shape]})
                        part.states.add(report.fp([code, other, body, shape]))
                        part.nontrivial.add(report.fp([code, other, body, shape]))
        elif kind == "unencodable":
            # a reply whose text the server's encoding cannot represent (a name from storage or configuration), through
            # the real response writer, a real control connection and the real client: the client must never be handed
            # a complete reply - whatever arrives cannot be the text that was sent
            from vf.rig import Rig
            enc, cases = payload
            for code, lines, mode in cases:
                rig = Rig(tree={}, server_kwargs={"encoding": enc})
                try:
                    async def xrpl(connection, rest, code=code, lines=lines, mode=mode):
                        connection.response(code, list(lines) if len(lines) > 1 else lines[0], mode)
                        return True
                    rig.server.commands_mapping["xrpl"] = xrpl
                    w3, a3 = rig.world, rig.world.aioftp
                    out = {}

                    async def main():
                        c = a3.Client(path_io_factory=a3.MemoryPathIO, encoding=enc)
                        await c.connect("127.0.0.1", 2121)
                        await c.login()
                        try:
                            rc, info = await c.command("XRPL", "xxx")
                            out["reply"] = (str(rc), list(info))
                        except (ConnectionError, a3.StatusCodeError, UnicodeError, EOFError) as exc:
                            out["error"] = type(exc).__name__
                        c.close()
                    try:
                        w3.run(main())
                    except Hang:
                        out["error"] = "hang"
                    part.evaluations += 1
                    kk = report.fp(["unencodable", enc, code, lines, mode])
                    part.states.add(kk)
                    part.nontrivial.add(kk)
                    part.outcomes[report.fp([out.get("error")])] += 1
                    if "reply" in out:
                        part.violation({"kind": "unencodable-reply-delivered-as-something-else", "encoding": enc,
                                        "lines": len(lines), "mode": "list" if mode else "plain"},
                                       {"sent": [code, lines], "got": out["reply"]},
                                       replay={"unencodable": [enc, code, list(lines), mode]})
                    elif out.get("error") == "hang":
                        part.violation({"kind": "client-hangs-on-unencodable-reply", "encoding": enc},
                                       {"sent": [code, lines]}, replay={"unencodable": [enc, code, list(lines), mode]})
                finally:
                    rig.close()
        elif kind == "waits":
            # the wait masks of Client.command: replies that agree with a wait mask are skipped - all of them, however
            # many - and the first one that does not is the answer; the stream stays in step for the next command
            from vf.fakeserver import FakeServer
            for entry in payload:
                pre_codes, final, expected, wait = entry[:4]
                kind_of = entry[4] if len(entry) > 4 else None
                # masks may come in any container (a str is one mask)
                conv = {None: lambda m: m, "set": lambda m: set([m] if isinstance(m, str) else m),
                        "frozenset": lambda m: frozenset([m] if isinstance(m, str) else m),
                        "list": lambda m: list([m] if isinstance(m, str) else m)}[kind_of]
                raw = "".join(f"{c} wait\r\n" for c in pre_codes) + f"{final} done\r\n"
                w2 = World()
                try:
                    fs = FakeServer({"SITE": raw.encode(), "NOOP": b"226 next\r\n"})
                    w2.run(fs.start())
                    res = []

                    async def main():
                        c = a.Client(path_io_factory=a.MemoryPathIO)
                        await c.connect("127.0.0.1", 2121)
                        await c.login()
                        try:
                            got = await c.command("SITE x", conv(expected), conv(wait))
                            if not (isinstance(got, tuple) and len(got) == 2):
                                res.append(("not-a-reply", [repr(got)]))
                            else:
                                res.append((str(got[0]), list(got[1])))
                        except a.StatusCodeError as exc:
                            res.append(("StatusCodeError", [str(x) for x in exc.received_codes]))
                        try:
                            code, info = await c.command("NOOP", "2xx")
                            res.append((str(code), list(info)))
                        except a.StatusCodeError as exc:
                            res.append(("StatusCodeError", [str(x) for x in exc.received_codes]))
                        c.close()
                    try:
                        w2.run(main())
                    except Hang:
                        res.append(("HANG", []))
                    part.evaluations += 1
                    want = [(final, [" done"]), ("226", [" next"])]
                    kk = report.fp(["waits", pre_codes, final, expected, wait])
                    part.states.add(kk)
                    part.nontrivial.add(kk)
                    if res != want:
                        part.violation({"kind": "wait-masks", "preliminary_replies": len(pre_codes)},
                                       {"stream": raw, "expected": expected, "wait": wait, "got": res, "want": want},
                                       replay={"waits": [list(pre_codes), final, expected, wait]})
                finally:
                    w2.close()
        elif kind == "echo":
            # replies that quote what the client sent: the stock server's answer to the stock client's command is one
            # the client can read, whatever the command was - and the stream stays in step
            from vf.rig import Rig
            for line in payload:
                rig = Rig(tree={})
                try:
                    w3, a3 = rig.world, rig.world.aioftp
                    out = {}

                    async def main():
                        c = a3.Client(path_io_factory=a3.MemoryPathIO)
                        await c.connect("127.0.0.1", 2121)
                        await c.login()
                        try:
                            rc, info = await c.command(line, "xxx")
                            out["reply"] = str(rc)
                        except Exception as exc:
                            out["error"] = type(exc).__name__
                        try:
                            rc, info = await c.command("SYST", "xxx")
                            out["next"] = str(rc)
                        except Exception as exc:
                            out["next_error"] = type(exc).__name__
                        c.close()
                    try:
                        w3.run(main())
                    except Hang:
                        out["error"] = "hang"
                    part.evaluations += 1
                    kk = report.fp(["echo", line[:12], len(line)])
                    part.states.add(kk)
                    part.nontrivial.add(kk)
                    if not out.get("reply", "").isdigit() or out.get("next") != "215":
                        part.violation({"kind": "reply-to-a-long-command-unreadable-for-the-client", "verb": line[:4]},
                                       {"command_length": len(line), "got": out}, replay={"echo": [line]})
                finally:
                    rig.close()
        elif kind == "long":
            # long reply lines through a *real* client connection (its own StreamReader and limits), 8 KiB .. 60 KiB
            from vf.fakeserver import FakeServer
            for n in payload:
                for shape in ("single", "middle-plain", "middle-list", "pwd"):
                    long = "L" * n
                    if shape == "single":
                        raw, want = f"200 {long}\r\n", ("200", [" " + long])
                    elif shape == "middle-plain":
                        raw, want = f"211-h\r\n211-{long}\r\n211 t\r\n", ("211", ["-h", "-" + long, " t"])
                    elif shape == "middle-list":
                        raw, want = f"250-h\r\n {long}\r\n250 t\r\n", ("250", ["-h", " " + long, " t"])
                    else:
                        raw, want = f'257 "/{long}"\r\n', ("257", [f' "/{long}"'])
                    w2 = World()
                    try:
                        fs = FakeServer({"SITE": raw.encode(), "NOOP": b"226 next\r\n"})
                        w2.run(fs.start())
                        res = []

                        async def main():
                            c = a.Client(path_io_factory=a.MemoryPathIO)
                            await c.connect("127.0.0.1", 2121)
                            try:
                                res.append(tuple(await c.command("SITE", "2xx")))
                            except Exception as exc:
                                res.append(("EXC", repr(exc)[:80]))
                            try:
                                res.append(tuple(await c.command("NOOP", "2xx")))
                            except Exception as exc:
                                res.append(("EXC", repr(exc)[:80]))
                            c.close()
                        try:
                            w2.run(main())
                        except Hang:
                            res.append(("HANG", ""))
                        part.evaluations += 1
                        got = [(str(c), list(i)) if c not in ("EXC", "HANG") else (c, i) for c, i in res]
                        if got != [want, ("226", [" next"])]:
                            part.violation({"kind": "long-reply-line", "shape": shape, "length": n},
                                           {"got": [(c, [x[:40] for x in i] if isinstance(i, list) else i) for c, i in got],
                                            "want_code": want[0]}, replay={"long": [n, shape]})
                    finally:
                        w2.close()
                part.states.add(report.fp(["long", n]))
                part.nontrivial.add(report.fp(["long", n]))
        elif kind == "latin1":
            enc = payload or "latin-1"
            lines = ["é", "a é b", "ÿ", "\xa0x"] if enc == "latin-1" else ["Привет", "я"]
            # every high byte of the encoding alone, doubled and tripled inside a line (0xFF is a letter here, not IAC)
            for b in range(0x80, 0x100):
                try:
                    ch = bytes([b]).decode(enc)
                except UnicodeDecodeError:
                    continue
                lines += ["a" + ch + "b", "a" + ch * 2 + "b", ch * 3 + "."]
            for line in lines:
                srv = a.Server(encoding=enc)
                for code, ls, mode in (("250", ["h", line, "t"], True), ("257", [line], False)):
                    raw = encode(w, srv, code, ls, mode)
                    for cuts in ([], list(range(1, len(raw)))):
                        res = decode(w, a, raw, cuts, 1, encoding=enc)
                        part.evaluations += 1
                        want = [(code, rstripped(expected_info(code, ls, mode)))]
                        if res != want:
                            part.violation({"kind": "single-byte-encoding", "encoding": enc},
                                           {"raw": repr(raw), "got": res, "want": want},
                                           replay={"latin1": [enc, line]})
                            break
                part.states.add(enc + line)
                part.nontrivial.add(enc + line)
        elif kind == "matches":
            codes = payload
            alpha = "0159xX?"
            masks = [""] + ["".join(t) for n in (1, 2, 3) for t in itertools.product(alpha, repeat=n)]
            for code in codes:
                c = a.Code(code)
                for m in masks:
                    got = c.matches(m)
                    # digit for digit: a code that ends before the mask does (a reply cut off after "25") cannot agree
                    # with it; a mask shorter than the code leaves the rest open (documented: Code("123").matches("1"))
                    want = len(code) >= len(m) and all((not mc.isdigit()) or mc == cc for mc, cc in zip(m, code))
                    part.evaluations += 1
                    if got != want:
                        part.violation({"kind": "code-matches"}, {"code": code, "mask": m, "got": got, "want": want},
                                       replay={"matches": [code, m]})
            part.states.add("matches" + codes[0])
    finally:
        w.close()
    part.transitions = part.evaluations
    part.traces = part.evaluations
    return part


def build_items(tier):
    items = []
    codes = [f"{i:03d}" for i in range(1000)]
    for i in range(0, 1000, 50):
        items.append(("single", codes[i:i + 50]))
        items.append(("matches", codes[i:i + 50]))
    # what is left of a code when the stream ends inside it
    items.append(("matches", ["", "2", "5", "25", "22", "50", "2x", "1", "15"]))
    for code in (CODES12 if tier != "quick" else ["150", "211", "250", "257", "550"]):
        for n in (1, 2, 3) + ((4,) if tier != "quick" else ()):
            for mode in (False, True):
                items.append(("multi", (code, n, mode)))
    for mode in (False, True):
        items.append(("multi", ("250", 4, mode)))
        items.append(("multi", ("211", 5, mode)))
        if tier != "quick":
            items.append(("multi", ("150", 6, mode)))
    for code in ("250", "257", "211"):
        for n in (1, 2, 3):
            for mode in (False, True):
                items.append(("multi", (code, n, mode, "uni")))
    for code in ("250", "211"):
        for mode in (False, True):
            items.append(("pairs", (code, mode)))
    items.append(("foreign", [("250", "251"), ("211", "226"), ("150", "550")]))
    items.append(("latin1", "latin-1"))
    items.append(("latin1", "cp1251"))
    for enc, bad in (("latin-1", "Ω"), ("ascii", "é"), ("cp1251", "é")):
        cases = []
        for n in (1, 2, 3):
            for pos in range(n):
                for mode in (False, True):
                    if mode and n < 2:
                        continue
                    lines = ["ok%d" % i for i in range(n)]
                    lines[pos] = "na" + bad + "me"
                    cases.append(("250", lines, mode))
        items.append(("unencodable", (enc, cases)))
    for n in (1000, 8191, 8192, 8193, 16384, 40000, 60000):
        items.append(("long", [n]))
    items.append(("echo", [ch * (n // len(ch.encode())) for ch in ("X", "\x01", "'", "\\", "\u00e9") for n in (100, 20000, 60000)]))
    items.append(("echo", [verb + ch * n for verb in ("TYPE ", "REST ", "PROT ", "EPSV ", "PBSZ ") for ch in ("\x01", "'")
                           for n in (20000, 60000)]))
    waits = []
    for wait, pres in (("1xx", ["150", "125", "120"]), ("120", ["120"]), (("1xx", "426"), ["150", "426"])):
        for n in range(0, 4):
            for pre in itertools.product(pres, repeat=n):
                for final, expected in (("226", "2xx"), ("200", "200"), ("250", ("2xx", "3xx"))):
                    waits.append((list(pre), final, expected, wait))
    # wait masks and expected masks that overlap: a reply that agrees with a wait mask is skipped, whatever the expected
    # masks say about it
    for wait, expected, pres, final in (("1xx", "xxx", ["150", "125"], "226"), ("1xx", ("1xx", "2xx"), ["150"], "226"),
                                        ("426", "xx6", ["426"], "226"), (("1xx", "331"), "xxx", ["150", "331"], "230"),
                                        ("15x", ("150", "226"), ["150"], "226"), ("x5x", "2xx", ["150", "250"], "226")):
        for n in range(0, 4):
            for pre in itertools.product(pres, repeat=n):
                waits.append((list(pre), final, expected, wait))
    # the empty mask agrees with every code (no digit to disagree with): a reply is read and handed back
    for final in ("226", "500", "331"):
        waits.append(([], final, "", ()))
        waits.append(([], final, ("",), ()))
        waits.append((["150"], final, "", "1xx"))
        waits.append((["150", "125"], final, ("", "2xx"), ("1xx",)))
    for kind_of in ("set", "frozenset", "list"):
        for wait, pres in (("1xx", ["150", "125"]), (("1xx", "426"), ["150", "426"])):
            for n in range(0, 3):
                for pre in itertools.product(pres, repeat=n):
                    for final, expected in (("226", "2xx"), ("250", ("2xx", "3xx"))):
                        waits.append((list(pre), final, expected, wait, kind_of))
    for i in range(0, len(waits), 40):
        items.append(("waits", waits[i:i + 40]))
    return items


def run(tier, seed, t0):
    items = build_items(tier)
    if seed:
        k = seed % len(items)
        items = items[k:] + items[:k]
    part = report.merge_all(report.pmap(work, items))
    bounds = {"codes_single_line": 1000, "codes_multi_line": 5 if tier == "quick" else 12, "line_alphabet": LINES, "non_normalised_unicode_lines": UNI,
              "line_counts": "1..5 (4 and 5 over reduced alphabets)" if tier == "quick" else "1..6", "modes": ["plain", "list"],
              "segmentations": "all single cuts, all double cuts for streams <= 24 bytes, byte-by-byte",
              "pairs": "reduced alphabet, second reply in 3 shapes",
              "unencodable_replies": "latin-1 / ascii / cp1251 servers, 1-3 lines, the unrepresentable character on every line "
                                     "position, plain and list mode, through the real response writer and a real client",
              "wait_masks": "Client.command with 0-3 preliminary replies that agree with its wait masks before the final one, "
                            "then the next command on the same stream",
              "long_lines": "1000..60000 characters through a real client connection on SimNet (single, middle of a plain / list reply, PWD)", "masks": "all masks of length 0..3 over 0159xX?"}
    return report.finish(
        PID, tier, seed, "model_checking", part, t0,
        rule="bounded-exhaustive: (code, lines, mode) encoded by the real Server.write_response and decoded by the real "
             "Client.parse_response under each segmentation; expected = same code, lines under the documented prefix "
             "convention (modulo trailing whitespace). Non-trivial = multi-line or sequence cases; distinct by content.",
        bounds=bounds,
        assumptions=["lines without CR/LF and compared modulo trailing whitespace (the line protocol right-strips)",
                     "StreamReader fed directly (no SimNet needed: segmentation is the feed_data granularity)"],
        conform=False)


def replay(path):
    data = json.loads(open(path).read())
    rp = data.get("replay") or {}
    if "echo" in rp:
        part = work(("echo", rp["echo"]))
        print(json.dumps([v["detail"] for v in part.violations], indent=1, default=repr))
        return 1 if part.violations else 0
    if "unencodable" in rp:
        enc, code, lines, mode = rp["unencodable"]
        part = work(("unencodable", (enc, [(code, lines, mode)])))
    elif "waits" in rp:
        pre, final, expected, wait = rp["waits"]
        expected = tuple(expected) if isinstance(expected, list) else expected
        wait = tuple(wait) if isinstance(wait, list) else wait
        part = work(("waits", [(pre, final, expected, wait)]))
    elif "latin1" in rp:
        enc, line = rp["latin1"] if isinstance(rp["latin1"], list) else ("latin-1", rp["latin1"])
        import aioftp as a
        w = World()
        try:
            bad = []
            for code, ls, mode in (("250", ["h", line, "t"], True), ("257", [line], False)):
                raw = encode(w, a.Server(encoding=enc), code, ls, mode)
                res = decode(w, a, raw, [], 1, encoding=enc)
                want = [(code, rstripped(expected_info(code, ls, mode)))]
                if res != want:
                    bad.append({"raw": repr(raw), "got": res, "want": want})
            print(json.dumps(bad, indent=1, default=repr))
            return 1 if bad else 0
        finally:
            w.close()
    elif "single" in rp:
        code, line = rp["single"]
        global LINES
        saved, LINES = LINES, [line]
        try:
            part = work(("single", [code]))
        finally:
            LINES = saved
    elif "foreign" in rp:
        code, other, body, shape = rp["foreign"]
        part = work(("foreign", [(code, other)]))
    else:
        # multi / pair cases: re-run the exact decoding
        import aioftp as a
        w = World()
        try:
            server = a.Server()
            if "multi" in rp:
                code, lines, mode, cuts = rp["multi"]
                raw = encode(w, server, code, list(lines), mode)
                res = decode(w, a, raw, cuts, 1)
                want = [(code, rstripped(expected_info(code, list(lines), mode)))]
            elif "pair" in rp:
                c1, l1, mode, c2, l2, cuts = rp["pair"]
                raw = encode(w, server, c1, l1, mode) + encode(w, server, c2, l2, False)
                res = decode(w, a, raw, cuts, 2)
                want = [(c1, rstripped(expected_info(c1, l1, mode))), (c2, rstripped(expected_info(c2, l2, False)))]
            else:
                print(json.dumps(data.get("detail"), indent=1, default=repr))
                return 1
            print(json.dumps({"got": res, "want": want}, default=repr))
            return 1 if [tuple(x) if isinstance(x, list) else x for x in res] != want else 0
        finally:
            w.close()
    print(json.dumps([v["detail"] for v in part.violations], indent=1, default=repr))
    return 1 if part.violations else 0
