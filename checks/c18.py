"""C18 The shipped storage backends are interchangeable.

E2 relational: BFS over FTP command histories (tree-relevant verbs over a
small path universe) replayed on MemoryPathIO, PathIO and AsyncPathIO - same
reply classes, same bytes, same tree after every step, failures change
nothing; and BFS over backend-API operation sequences on PathIO vs
AsyncPathIO.  DESIGN.md §5 C18.
"""
import itertools
import json
import pathlib

from vf import report, backends, model as M
from vf.conform import Conf, parse_names
from vf.world import World

PID = "C18"
TREE = {"a": {"x": b"XXXXXX", "s": {"t": {}}}, "b": b"BBBB", "c": {}}
USERS = [M.UserSpec(None)]
PAYLOAD = b"NEW"
BACKENDS = ["memory", "pathio", "async"]

ALPHABET = [
    "MKD a", "MKD n", "MKD n/m", "MKD b/z", "MKD c/k",
    "RMD a", "RMD c", "RMD b", "RMD missing",
    "DELE b", "DELE a", "DELE missing", "DELE a/x",
    "RNFR a", "RNFR b", "RNFR c", "RNFR a/x", "RNFR missing",
    "RNTO n", "RNTO b", "RNTO a", "RNTO c/n", "RNTO missing/y", "RNTO b/z", "RNTO a/sub", "RNTO a/x/../y",
    "RNTO a/s/in", "RNTO a/s/t/deep", "RNFR a/s", "RNTO c/s2",
    "T:STOR new", "T:STOR b", "T:STOR a", "T:STOR missing/y", "T:STOR a/new", "T:STOR b/z",
    "T:APPE new", "T:APPE b", "T:APPE a",
    "T:RETR b", "T:RETR a/x", "T:RETR a", "T:RETR missing",
    "REST 0", "REST 2", "REST 4", "REST 9",
    "MLST a", "MLST b", "MLST missing", "MLST b/z",
    "T:LIST a", "T:LIST c", "T:LIST b", "T:MLSD a",
    "CWD a", "CWD ..", "CWD b",
    # names made of shell-pattern characters are names like any other
    "MKD [a]", "T:LIST [a]", "T:MLSD [a]", "MKD ?", "T:LIST ?", "MKD *", "T:MLSD *", "T:STOR [b]", "T:RETR [b]",
    # an upload in two pieces with a stat of the same file (same control connection) between them
    "M:STOR b|MLST b", "M:APPE b|MLST b", "M:STOR a/x|MLST a/x", "M:STOR new|MLST new",
]
PREFIX = ["USER anonymous", "EPSV"]


def run_on(backend, hist):
    """returns list of observations per step: (classes, data, names, tree)"""
    conf = Conf(USERS, TREE, backend=backend, payload=PAYLOAD)
    two = any(sym.startswith("2:") or "|2:" in sym for sym in hist)
    rig = conf.new_rig(n_sessions=2 if two else 1)
    out = []
    try:
        for i in range(2 if two else 1):
            rig.ev(i, "@connect")
            for line in PREFIX:
                rig.ev(i, line)
        for sym in hist:
            # "2:" - the command comes from a second session (its own control connection, same account)
            who = 0
            if sym.startswith("2:"):
                who, sym = 1, sym[2:]
            s = rig.sessions[who]
            _ev = rig.ev
            rig_ev = lambda i, e, _who=who: _ev(_who, e)      # noqa
            transfer = sym.startswith("T:") or sym.startswith("M:")
            line = sym[2:] if transfer else sym
            mid = None
            if sym.startswith("M:"):
                line, mid = line.split("|")
            verb = line.partition(" ")[0].lower()
            if transfer:
                rig_ev(0, "@data")
            r = rig_ev(0, line) or []
            codes = [c for c, _ in r]
            if mid is not None and codes and codes[-1][:1] == "1" and s.data is not None:
                rig_ev(0, "@dsend " + PAYLOAD[:1].decode())
                if mid.startswith("2:"):
                    # ... by the other session, between the two pieces of this session's upload
                    rm = _ev(1, mid[2:]) or []
                else:
                    rm = rig_ev(0, mid) or []
                rig_ev(0, "@dsend " + PAYLOAD[1:].decode())
                r2 = rig_ev(0, "@dclose") or []
                rig.collect()
                codes += [c for c, _ in rm] + [c for c, _ in r2]
            elif transfer and verb in ("stor", "appe") and codes and codes[-1][:1] == "1" and s.data is not None:
                rig_ev(0, "@dsend " + PAYLOAD.decode())
                r2 = rig_ev(0, "@dclose") or []
                rig.collect()
                codes += [c for c, _ in r2]
            data = names = None
            if transfer and verb == "retr" and s.data is not None:
                data = s.data.received
            if transfer and verb in ("list", "mlsd") and s.data is not None:
                names = sorted(parse_names(verb, s.data.received))
            if transfer and s.data is not None and not s.data.eof:
                # an unused data connection stays with the session; drop it so that steps stay independent
                rig_ev(0, "@dclose")
            mlst_type = None
            if verb == "mlst" and codes == ["250"]:
                body = r[-1][1][1] if len(r[-1][1]) > 1 else ""
                mlst_type = [f for f in body.split(";") if f.strip().lower().startswith("type=")]
                size = [f for f in body.split(";") if f.strip().lower().startswith("size=")]
                mlst_type = (mlst_type, size if "Type=file" in body else None)
            out.append({"classes": [c[:1] for c in codes], "codes": codes, "data": data, "names": names,
                        "tree": rig.snapshot(), "mlst": mlst_type, "closed": s.closed()})
            if s.closed():
                break
        return out
    finally:
        rig.close()


TIMEOUT_SYMS = ["MKD n", "DELE b", "RMD c", "T:STOR b", "T:STOR new", "T:APPE b", "RNFR b|RNTO moved", "MKD a/s/t/deep",
                "T:RETR b", "T:RETR a/x", "T:LIST a", "T:MLSD a", "MLST b"]


def run_timeout(sym, chooser):
    """executor backend with Server(path_timeout=...): a call that times out while its job is still queued in the pool
    is withdrawn - a command answered 451 has changed nothing, also not a little later"""
    conf = Conf(USERS, TREE, backend="async", payload=PAYLOAD, server_kwargs={"path_timeout": 0.05})
    rig = conf.new_rig(chooser=chooser)
    try:
        rig.world.net.exec_cancellable = True
        chooser.active = False
        rig.ev(0, "@connect")
        for line in PREFIX:
            rig.ev(0, line)
        s = rig.sessions[0]
        before = rig.snapshot()
        codes = []
        chooser.active = True
        for part_ in sym.split("|"):
            transfer = part_.startswith("T:")
            line = part_[2:] if transfer else part_
            if transfer:
                rig.ev(0, "@data")
            r = rig.ev(0, line) or []
            cs = [c for c, _ in r]
            if transfer and cs and cs[-1][:1] == "1" and s.data is not None:
                r1 = rig.ev(0, "@dsend " + PAYLOAD.decode()) or []
                r2 = rig.ev(0, "@dclose") or []
                rig.collect()
                cs += [c for c, _ in r1] + [c for c, _ in r2]
            codes.append(cs)
        chooser.active = False
        rig.world.settle(2)
        rig.collect()
        late = [c for ev_, rr in s.transcript if ev_ == "<late>" for c, _ in rr]
        if late and codes:
            codes[-1] = codes[-1] + late
        after = rig.snapshot()
        problems = []
        # a transfer that was started (150) and then failed may have written already; everything else that is answered
        # with a failure has changed nothing
        failed = [cs for cs in codes if not (cs and cs[-1].startswith(("2", "3"))) and not any(c.startswith("1") for c in cs)]
        if failed and len(failed) == len(codes) and after != before:
            problems.append({"kind": "failed-command-changed-tree", "backend": "async", "step": sym, "codes": codes,
                             "before": repr(before)[:200], "after": repr(after)[:200]})
        if s.closed():
            problems.append({"kind": "session-ended", "step": sym, "codes": codes})
        for cs in codes:
            # a backend call that times out fails the command it belongs to - one final reply, like any other failure
            if len([c for c in cs if not c.startswith("1")]) != 1:
                problems.append({"kind": "not-exactly-one-final-reply-when-the-backend-times-out", "step": sym, "codes": codes})
                break
        return {"problems": problems, "events": rig.world.net.n_events, "trace": report.fp(rig.world.net.trace),
                "outcome": report.fp([codes, after == before])}
    finally:
        rig.close()


def timeout_work(item):
    from vf.explore import explore
    from vf.simloop import ReplayDivergence
    sym, bound = item
    part = report.Partial()
    kinds = ["timer", "order"]
    try:
        for ch, res in explore(lambda c: run_timeout(sym, c), bound, kinds=kinds, max_exec=3000):
            if ch is None:
                part.caps.append({"timeout-sym": sym, "cap": 3000})
                break
            part.evaluations += 1
            part.traces += 1
            part.transitions += res["events"]
            part.states.add(res["trace"])
            part.nontrivial.add(res["trace"])
            part.outcomes[res["outcome"]] += 1
            part.counters[f"path_timeout_exec_dev{ch.deviations}"] += 1
            for p in res["problems"][:1]:
                part.violation({"kind": p["kind"], "verb": sym.replace("T:", "").partition(" ")[0], "field": "path_timeout",
                                "backend": "async"}, {"problem": p},
                               replay={"timeout": sym, "choices": ch.choices, "kinds": kinds})
    except ReplayDivergence as exc:
        part.infra.append(f"replay divergence in timeout case {sym}: {exc}")
    return part


def expand(hist):
    part = report.Partial()
    obs = {b: run_on(b, hist) for b in BACKENDS}
    part.evaluations += 1
    part.traces += len(BACKENDS)
    part.transitions += len(hist) * len(BACKENDS)
    ref = obs["memory"]
    key = report.fp([ref[-1]["tree"] if ref else None, [o["codes"] for o in ref][-1:] if ref else None, "cwd",
                     [h for h in hist if h.startswith("CWD") or h.startswith("RNFR") or h.startswith("REST")]])
    tree_key = report.fp(sorted((ref[-1]["tree"] if ref else backends.tree_to_snapshot(TREE)).items(), key=lambda kv: kv[0]))
    part.states.add(tree_key)
    if len(hist) >= 2:
        part.nontrivial.add(report.fp(hist))
    problems = []
    n = min(len(o) for o in obs.values())
    for k in range(n):
        sym = hist[k]
        for b in BACKENDS[1:]:
            o, m = obs[b][k], ref[k]
            for field in ("classes", "data", "names", "tree", "mlst", "closed"):
                if o[field] != m[field]:
                    problems.append({"kind": "backends-disagree", "field": field, "step": sym, "memory": repr(m[field])[:200],
                                     b: repr(o[field])[:200], "other": b, "history": hist[:k + 1]})
                    break
        for b in BACKENDS:
            o = obs[b][k]
            before = obs[b][k - 1]["tree"] if k else backends.tree_to_snapshot(TREE)
            final = o["codes"][-1] if o["codes"] else ""
            if not final.startswith("2") and o["tree"] != before:
                problems.append({"kind": "failed-command-changed-tree", "backend": b, "step": sym, "codes": o["codes"],
                                 "before": repr(before)[:200], "after": repr(o["tree"])[:200], "history": hist[:k + 1]})
        if problems:
            break
    part.outcomes[report.fp([o["codes"] for o in ref[-1:]])] += 1
    if len(hist) == 2:
        part.sample({"history": PREFIX + hist, "codes": {b: [o["codes"] for o in obs[b]] for b in BACKENDS}}, limit=1)
    for p in problems:
        verb = p["step"].replace("2:", "").replace("T:", "").partition(" ")[0]
        part.violation({"kind": p["kind"], "verb": verb, "field": p.get("field"), "backend": p.get("backend", p.get("other"))},
                       {"problem": p}, replay={"history": list(hist)})
    state_key = report.fp([tree_key, key])
    return part, state_key, bool(problems)


LOOKS1 = ["MLST b", "MLST new", "T:RETR b", "T:LIST a", "CWD a", "MLST a/x", "T:RETR a/x", "MLST c", "T:MLSD c", "MLST a/s"]
CHANGES2 = ["2:DELE b", "2:T:STOR new", "2:T:STOR b", "2:MKD new", "2:RMD c", "2:DELE a/x", "2:T:APPE b", "2:MKD c/k", "2:RMD a/s/t",
            "2:T:STOR a/x"]
ACTS1 = ["MLST b", "MLST new", "T:RETR b", "T:RETR new", "DELE b", "DELE new", "T:LIST a", "T:MLSD c", "MLST a/x", "T:RETR a/x",
         "DELE a/x", "RMD c", "MLST c", "T:STOR b", "T:APPE new", "RMD new", "MKD new", "T:LIST .", "RMD a/s"]


def two_session_histories(tier):
    """what one session looked at is changed by another session, then the first one looks (or acts) again: the three
    backends agree - the shared tree is the only state"""
    out = []
    for look in LOOKS1:
        for change in CHANGES2:
            for act in ACTS1:
                out.append([look, change, act])
    # a rename by the other session in between (two commands)
    for look in ("MLST b", "T:RETR b", "MLST new", "T:LIST a"):
        for act in ("MLST b", "MLST new", "T:RETR new", "T:RETR b", "DELE b", "DELE new"):
            out.append([look, "2:RNFR b", "2:RNTO new", act])
            out.append([look, "2:RNFR a/x", "2:RNTO b", act.replace("new", "a/x")])
    # another session acts on the file while this session's upload to it is half-way
    mids = []
    for up in ("M:STOR b", "M:APPE b", "M:STOR new", "M:STOR a/x"):
        target = up.split(" ")[1]
        for other in (f"2:DELE {target}", f"2:MLST {target}", f"2:RNFR {target}", "2:MKD new", f"2:RMD {target}", "2:DELE b"):
            for after in (f"MLST {target}", f"T:RETR {target}", "T:LIST a"):
                mids.append([f"{up}|{other}", after])
    return (out if tier != "quick" else out[::3] + out[-48:]) + mids


def two_sessions(tier):
    total = report.Partial()
    hists = two_session_histories(tier)
    for part, key, dead in report.pmap(expand, hists):
        total.merge(part)
    total.counters["ftp_two_session_histories"] = len(hists)
    return total


def bfs(depth, cap):
    total = report.Partial()
    seen = set()
    frontier = [[]]
    for level in range(depth + 1):
        results = report.pmap(expand, frontier)
        nxt = []
        for h, (part, key, dead) in zip(frontier, results):
            total.merge(part)
            if key in seen or dead:
                continue
            seen.add(key)
            if level < depth:
                for a in ALPHABET:
                    nxt.append(h + [a])
        total.counters[f"ftp_bfs_level{level}"] = len(frontier)
        if len(nxt) > cap:
            total.caps.append({"ftp_bfs_level": level + 1, "frontier": len(nxt), "cap": cap})
            nxt = nxt[:cap]
        frontier = nxt
    total.counters["ftp_bfs_distinct_states"] = len(seen)
    return total


# --------------------------------------------------------------------------
# backend API level: PathIO vs AsyncPathIO
# --------------------------------------------------------------------------
UNIVERSE = ["a", "a/x", "b", "c", "missing", "missing/y", "b/z", "a/s", "a/s/t"]


def api_ops():
    ops = []
    for p in UNIVERSE:
        ops += [("exists", p), ("is_dir", p), ("is_file", p), ("rmdir", p), ("unlink", p), ("list", p), ("stat", p)]
        for parents in (False, True):
            for exist_ok in (False, True):
                ops.append(("mkdir", p, parents, exist_ok))
        for mode in ("rb", "wb", "ab", "r+b"):
            ops.append(("open", p, mode, 0, "read"))
            ops.append(("open", p, mode, 2, "read"))
            ops.append(("open", p, mode, 0, "write"))
            ops.append(("open", p, mode, 2, "write"))
    for s, d in itertools.permutations(UNIVERSE, 2):
        ops.append(("rename", s, d))
    ops.append(("rename", "a", "a/x/in"))
    ops.append(("rename", "a", "a/s/in"))
    ops.append(("rename", "a", "a/s/t/in"))
    ops.append(("rename", "a/s", "a/s/t/in"))
    ops.append(("rename", "b", "b"))
    return ops


API_OPS = api_ops()
# symbolic links in the tree (to a file, to a directory, to nothing): made by the fixture, there is no verb for them
LINKS = {"lf": "a/x", "ld": "a", "dangling": "nowhere"}
LINK_UNIVERSE = ["lf", "ld", "ld/x", "dangling", "a/x", "a"]


def link_ops():
    ops = []
    for p in LINK_UNIVERSE:
        ops += [("exists", p), ("is_dir", p), ("is_file", p), ("rmdir", p), ("unlink", p), ("list", p), ("stat", p),
                ("mkdir", p, False, False), ("mkdir", p, True, True)]
        for mode in ("rb", "wb", "ab", "r+b"):
            ops.append(("open", p, mode, 0, "read"))
            ops.append(("open", p, mode, 2, "write"))
    for s_, d in itertools.permutations(["lf", "ld", "dangling", "a/x", "new"], 2):
        if s_ != "new":
            ops.append(("rename", s_, d))
    return ops


LINK_OPS = link_ops()


def snapshot_links(root):
    import os
    out = {}
    for dirpath, dirnames, filenames in os.walk(root):
        for name in dirnames + filenames:
            full = os.path.join(dirpath, name)
            rel = "/" + os.path.relpath(full, root)
            if os.path.islink(full):
                out[rel] = ("link", os.readlink(full))
            elif os.path.isdir(full):
                out[rel] = None
            else:
                out[rel] = open(full, "rb").read()
    return out


async def api_apply(pio, root, op):
    name = op[0]
    p = root / op[1]
    try:
        if name in ("exists", "is_dir", "is_file"):
            return ("ok", await getattr(pio, name)(p))
        if name in ("rmdir", "unlink"):
            await getattr(pio, name)(p)
            return ("ok", None)
        if name == "mkdir":
            await pio.mkdir(p, parents=op[2], exist_ok=op[3])
            return ("ok", None)
        if name == "list":
            return ("ok", sorted(x.name for x in await pio.list(p)))
        if name == "stat":
            st = await pio.stat(p)
            import stat as _s
            return ("ok", ("dir", None) if _s.S_ISDIR(st.st_mode) else ("file" if _s.S_ISREG(st.st_mode) else _s.S_IFMT(st.st_mode),
                                                                         st.st_size))
        if name == "rename":
            await pio.rename(p, root / op[2])
            return ("ok", None)
        if name == "open":
            _, _, mode, seek, action = op
            async with pio.open(p, mode=mode) as f:
                if seek:
                    await f.seek(seek)
                if action == "read":
                    return ("ok", await f.read(3))
                await f.write(b"WW")
                return ("ok", None)
    except Exception as exc:
        reason = getattr(exc, "reason", None)
        inner = reason[0].__name__ if reason else type(exc).__name__
        return ("err", type(exc).__name__, inner)


def api_run(kind, hist):
    import aioftp
    with backends.TempDir() as root:
        backends.populate_fs(root, TREE)
        links = bool(hist) and hist[0][0] == "@links"
        if links:
            import os
            for name, target in LINKS.items():
                os.symlink(target, str(root / name))
        w = World()
        try:
            pio = aioftp.PathIO() if kind == "pathio" else aioftp.AsyncPathIO()
            out = []
            for op in hist:
                if op[0] == "@links":
                    out.append((("ok", None), snapshot_links(root)))
                    continue
                r = w.run(api_apply(pio, root, op))
                out.append((r, snapshot_links(root) if links else backends.snapshot_fs(root)))
            return out
        finally:
            w.close()


def api_expand(hist):
    part = report.Partial()
    a = api_run("pathio", hist)
    b = api_run("async", hist)
    part.evaluations += 1
    part.traces += 2
    part.transitions += 2 * len(hist)
    tree = a[-1][1] if a else backends.tree_to_snapshot(TREE)
    key = report.fp(sorted(tree.items(), key=lambda kv: kv[0]))
    part.states.add("api" + key)
    if hist:
        part.nontrivial.add(report.fp(["api", hist]))
    bad = False
    for k, (x, y) in enumerate(zip(a, b)):
        if x != y:
            bad = True
            part.violation({"kind": "fs-backends-disagree", "op": hist[k][0]},
                           {"history": hist[:k + 1], "pathio": repr(x)[:300], "async": repr(y)[:300]},
                           replay={"api": [list(o) for o in hist]})
            break
    return part, key, bad


def big_directory(item):
    """directories with hundreds of entries (more than any batch or buffer a backend may use internally): both file-system
    backends list exactly the same names - at the API (awaited and iterated) and behind the server (MLSD, LIST)"""
    n, = item
    import aioftp
    part = report.Partial()
    names = sorted(f"e{k:04d}" for k in range(n))
    with backends.TempDir() as root:
        (root / "big").mkdir()
        for nm in names:
            (root / "big" / nm).write_bytes(b"")
        got = {}
        for kind in ("pathio", "async"):
            w = World()
            try:
                pio = aioftp.PathIO() if kind == "pathio" else aioftp.AsyncPathIO()

                async def both():
                    awaited = sorted(x.name for x in await pio.list(root / "big"))
                    iterated = []
                    async for x in pio.list(root / "big"):
                        iterated.append(x.name)
                    return awaited, sorted(iterated)
                got[kind] = w.run(both())
            finally:
                w.close()
        part.evaluations += 2
        part.traces += 2
        part.transitions += 4 * n
        k = report.fp(["big-directory", n])
        part.states.add(k)
        part.nontrivial.add(k)
        for kind, (awaited, iterated) in got.items():
            for how, lst in (("awaited", awaited), ("iterated", iterated)):
                if lst != names:
                    missing = sorted(set(names) - set(lst))[:5]
                    part.violation({"kind": "fs-backends-disagree", "op": "list", "entries": n},
                                   {"backend": kind, "how": how, "listed": len(lst), "entries": n, "missing": missing,
                                    "duplicates": len(lst) - len(set(lst))}, replay={"big": [n]})
                    return part
    # ... and behind the server
    from vf.rig import Rig
    for backend in ("pathio", "async"):
        rig = Rig(tree={"big": {nm: b"" for nm in names}}, backend=backend, server_kwargs={"wait_future_timeout": 1})
        try:
            rig.ev(0, "@connect")
            rig.ev(0, "USER anonymous")
            for verb in ("MLSD big", "LIST big"):
                rig.ev(0, "EPSV")
                rig.ev(0, "@data")
                r = rig.ev(0, verb) or []
                data = rig.sessions[0].data.received if rig.sessions[0].data is not None else b""
                listed = sorted(parse_names(verb.split(" ")[0].lower(), data))
                part.evaluations += 1
                if [c for c, _ in r][-1:] not in (["226"], ["200"]) or listed != names:
                    part.violation({"kind": "backends-disagree", "verb": verb.split(" ")[0], "field": "names", "backend": backend},
                                   {"entries": n, "listed": len(listed), "codes": [c for c, _ in r],
                                    "missing": sorted(set(names) - set(listed))[:5]}, replay={"big": [n]})
                    return part
        finally:
            rig.close()
    return part


def api_bfs(depth, cap, ops=None, start=None, label="api"):
    ops = API_OPS if ops is None else ops
    total = report.Partial()
    seen = set()
    frontier = [list(start or [])]
    for level in range(depth + 1):
        results = report.pmap(api_expand, frontier)
        nxt = []
        for h, (part, key, dead) in zip(frontier, results):
            total.merge(part)
            if key in seen or dead:
                continue
            seen.add(key)
            if level < depth:
                for op in ops:
                    nxt.append(h + [op])
        total.counters[f"{label}_bfs_level{level}"] = len(frontier)
        if len(nxt) > cap:
            total.caps.append({"api_bfs_level": level + 1, "frontier": len(nxt), "cap": cap})
            nxt = nxt[:cap]
        frontier = nxt
    total.counters[f"{label}_bfs_distinct_trees"] = len(seen)
    return total


def run(tier, seed, t0):
    if tier == "quick":
        parts = [bfs(2, 30000), api_bfs(2, 20000)]
    else:
        parts = [bfs(4, 300000), api_bfs(3, 200000)]
    parts.append(api_bfs(2 if tier == "quick" else 3, 20000 if tier == "quick" else 200000, ops=LINK_OPS,
                         start=[("@links",)], label="api_links"))
    parts += report.pmap(big_directory, [(n,) for n in ((255, 256, 257, 600) if tier == "quick" else (255, 256, 257, 512, 513, 600, 1025, 3000))])
    parts.append(two_sessions(tier))
    parts += report.pmap(timeout_work, [(sym, 1 if tier == "quick" else 3) for sym in TIMEOUT_SYMS])
    part = report.merge_all(parts)
    bounds = {"path_timeout": "executor backend, path_timeout 0.05 s, jobs withdrawn when cancelled while queued; %d mutating "
                              "commands under <= %d timer/order deviations" % (len(TIMEOUT_SYMS), 1 if tier == "quick" else 3),
              "two_sessions": "look (session 1) x change by a second session x look/act again (session 1): %d x %d x %d histories plus renames (quick: every third)" % (len(LOOKS1), len(CHANGES2), len(ACTS1)),
              "ftp_alphabet": len(ALPHABET), "ftp_depth": 2 if tier == "quick" else 4, "api_ops": len(API_OPS),
              "api_depth": 2 if tier == "quick" else 3, "universe": UNIVERSE, "backends": BACKENDS}
    return report.finish(
        PID, tier, seed, "model_checking", part, t0,
        rule="FTP level: BFS over histories (after USER+EPSV) de-duplicated on (tree, cwd/rename/rest history); every "
             "history replayed on MemoryPathIO, PathIO and AsyncPathIO inside SimLoop and compared step by step. API level: "
             "BFS over operation sequences de-duplicated on the tree, PathIO vs AsyncPathIO. Non-trivial = history of "
             "length >= 2 (FTP) / >= 1 (API).",
        bounds=bounds,
        assumptions=["environment model SimLoop/SimNet (executor jobs complete as environment events)",
                     "directory sizes and listing order are not compared; mutations of the virtual root are outside the alphabet"])


def replay(path):
    data = json.loads(open(path).read())
    if "timeout" in data.get("replay", {}):
        from vf.simloop import Chooser
        rp = data["replay"]
        res = run_timeout(rp["timeout"], Chooser(rp["choices"], rp["kinds"]))
        print(json.dumps(res["problems"], indent=1, default=repr))
        return 1 if res["problems"] else 0
    rp = data["replay"]
    if "big" in rp:
        part = big_directory(tuple(rp["big"]))
        print(json.dumps([v["detail"] for v in part.violations], indent=1, default=repr))
        return 1 if part.violations else 0
    if "api" in rp:
        part, key, bad = api_expand([tuple(o) for o in rp["api"]])
    else:
        part, key, bad = expand(rp["history"])
    print(json.dumps([v["detail"] for v in part.violations], indent=1, default=repr))
    return 1 if part.violations else 0
