"""C02 Every client-supplied path stays inside the user's base directory.

E3 (function): Server.get_paths for every path string over a segment alphabet
x every reachable cwd x base paths (POSIX absolute/relative/nested and a
Windows-flavour base) against an independent resolver and a lexical
containment oracle.  E2 (wire): CWD/CDUP histories followed by every
path-taking verb with every short path string on a spy backend: every path
handed to the backend stays inside the base; replies follow the reference
model.  DESIGN.md §5 C02.
"""
import itertools
import json
import pathlib
import types

from vf import report, backends, model as M
from vf.conform import Conf, step as conf_step

PID = "C02"
SEGS = ["a", "b", "..", ".", "", "...", ".h", "a\\b", "..\\..", "C:", "C:\\x", "c:x", "\\\\srv\\share", " ", '"a"']
PREFIXES = ["", "/", "//", "///"]
BASES = [("posix", "/srv/ftp"), ("posix", "rel/base"), ("posix", "."), ("posix", "/"), ("posix", "/srv/ftp/nested"),
         ("windows", "C:\\ftp")]


def cwds(depth=3):
    out = ["/"]
    for d in range(1, depth + 1):
        for t in itertools.product("ab", repeat=d):
            out.append("/" + "/".join(t))
    return out


def path_strings(maxlen):
    for pre in PREFIXES:
        for n in range(0, maxlen + 1):
            for t in itertools.product(SEGS, repeat=n):
                body = "/".join(t)
                if n == 0 and pre == "":
                    yield ""
                    continue
                yield pre + body
                if n:
                    yield pre + body + "/"


def fold_inside(base_parts, real_parts, casefold=False):
    """lexical containment: real must start with base and never climb above it"""
    pre = tuple(real_parts[:len(base_parts)])
    if casefold:
        pre, base_parts = tuple(x.lower() for x in pre), tuple(x.lower() for x in base_parts)
    if pre != tuple(base_parts):
        return False
    depth = 0
    for p in real_parts[len(base_parts):]:
        if p == "..":
            depth -= 1
            if depth < 0:
                return False
        elif p not in (".", ""):
            depth += 1
    return True


def func_work(item):
    flavour, base, strings = item
    import aioftp
    part = report.Partial()
    cls = pathlib.PurePosixPath if flavour == "posix" else pathlib.PureWindowsPath
    base_path = cls(base)
    user = aioftp.User(base_path=".")
    user.base_path = base_path
    from vf.world import World, Running
    w = World(patch=False)
    try:
        with Running(w.loop):
            _func_loop(part, aioftp, flavour, base, base_path, user, strings)
    finally:
        w.close()
    part.transitions = part.evaluations
    part.states.add(report.fp([flavour, base, len(strings), strings[:1]]))
    part.nontrivial.add(report.fp([flavour, base, len(strings), strings[:1]]))
    part.sample({"flavour": flavour, "base": base, "paths": strings[:3]}, limit=1)
    return part


def _func_loop(part, aioftp, flavour, base, base_path, user, strings):
    for cwd in cwds():
        # a real Connection object, reused for all path strings of this cwd like a live session would
        conn = aioftp.Connection(current_directory=pathlib.PurePosixPath(cwd), user=user)
        for s in strings:
            part.evaluations += 1
            want = M.resolve(cwd, s)
            try:
                real, virt = aioftp.Server.get_paths(conn, s)
            except Exception as exc:
                # every client-supplied string resolves to *some* location inside the base directory
                part.violation({"kind": "path resolution raised " + type(exc).__name__, "flavour": flavour},
                               {"base": base, "cwd": cwd, "path": s, "exception": repr(exc)[:200], "resolver": want},
                               replay={"func": [flavour, base, cwd, s]})
                continue
            vs = str(virt)
            ok_virtual = vs == want
            reset = vs == "/" and real == base_path
            problem = None
            if not isinstance(virt, pathlib.PurePosixPath) or not virt.is_absolute() or ".." in virt.parts:
                problem = "virtual path not a normalised absolute path"
            elif flavour == "posix" and not ok_virtual:
                problem = "virtual path differs from the independent resolver"
            elif flavour == "windows" and not (ok_virtual or reset):
                problem = "virtual path neither the resolved one nor the reset root"
            elif not fold_inside(base_path.parts, real.parts, casefold=flavour == "windows"):
                problem = "real path lexically outside the base directory"
            elif real != base_path / str(virt.relative_to("/")) and not reset:
                problem = "real path is not base / virtual"
            elif not reset and tuple(real.parts[len(base_path.parts):]) != tuple(virt.parts[1:]):
                # (one location, one virtual name: `C:x` joined to a drive base, or `a\\b` on a Windows base, address
                # a location whose normalised virtual path is another one - which permissions are looked up for)
                problem = "virtual path is not the normalised name of the location addressed"
            if problem:
                part.violation({"kind": problem, "flavour": flavour},
                               {"base": base, "cwd": cwd, "path": s, "real": str(real), "virtual": vs, "resolver": want},
                               replay={"func": [flavour, base, cwd, s]})


def func_items(tier):
    strings = sorted(set(path_strings(3 if tier == "quick" else 4)))
    chunk = 1500 if tier == "quick" else 6000
    items = []
    for flavour, base in BASES:
        for i in range(0, len(strings), chunk):
            items.append((flavour, base, strings[i:i + chunk]))
    return items, len(strings)


# -- wire level ------------------------------------------------------------
WTREE = {"a": {"b": {"c": {}}, "f": b"af"}, "b": {}, "f": b"ff"}
WSEGS = ["a", "b", "..", ".", "", "...", "f", " a", " ..", '"a"']       # the last two: names that begin with a blank
WVERBS = ["CWD", "MKD", "RMD", "MLSD", "LIST", "MLST", "RNFR", "RNTO", "DELE", "STOR", "APPE", "RETR"]
WCWD_HISTS = [[], ["CWD a"], ["CWD a/b"], ["CWD a/b/c"], ["CWD a/b", "CDUP"], ["CWD b", "CWD ../a/b/c", "CDUP"]]


def wire_strings(maxlen):
    out = set()
    for pre in ("", "/", "//"):
        for n in range(1, maxlen + 1):
            for t in itertools.product(WSEGS, repeat=n):
                body = "/".join(t)
                out.add(pre + body)
                out.add(pre + body + "/")
    out.add("")
    out.add("/")
    return sorted(out)


def wire_case(item):
    verb, cwd_hist, strings = item
    part = report.Partial()
    users = [M.UserSpec(None)]
    base = "/base"
    for s in strings:
        conf = Conf(users, WTREE)
        spy = backends.SpyControl()
        from vf.rig import Rig
        rig = Rig(backend="memory", tree=WTREE, users=conf.aio_users, spy=spy, base=base,
                  server_kwargs=conf.server_kwargs)
        # something outside the base that must never be touched
        spy.armed = False
        backends.populate_memory(rig.server, {"outside": {"secret": b"S"}}, base="/")
        spy.armed = True
        whole_before = {k: v for k, v in backends.snapshot_memory_all(rig.server).items() if not k.startswith(base)}
        model = conf.new_model()
        try:
            rig.ev(0, "@connect")
            hist = ["USER anonymous", "EPSV"] + list(cwd_hist)
            if verb in ("LIST", "MLSD", "RETR", "STOR", "APPE"):
                hist.append("@data")
            if verb == "RNTO":
                hist.append("RNFR /f")
            hist.append(f"{verb} {s}".rstrip(" ") if s else verb)
            hist.append("PWD")
            problems = []
            for k, line in enumerate(hist):
                pr, obs = conf_step(rig, model, line, conf)
                for p in pr:
                    p["history"] = hist[:k + 1]
                problems += pr
                if pr:
                    break
            for op, p in spy.calls:
                if p is None:
                    continue
                for q in p.split(" -> "):
                    if not (q == base or q.startswith(base + "/")) or ".." in q.split("/"):
                        problems.append({"kind": "backend-path-outside-base", "op": op, "path": q, "history": hist})
            whole = {k: v for k, v in backends.snapshot_memory_all(rig.server).items() if not k.startswith(base)}
            if whole != whole_before:
                problems.append({"kind": "tree-outside-base-changed", "history": hist})
            part.evaluations += 1
            part.traces += 1
            part.transitions += len(hist)
            part.states.add(report.fp([verb, cwd_hist, s]))
            if ".." in s or "//" in s or s.startswith("/"):
                part.nontrivial.add(report.fp([verb, cwd_hist, s]))
            part.outcomes[report.fp([verb, obs["codes"]])] += 1
            part.sample({"history": hist}, limit=1)
            for p in problems[:1]:
                part.violation({"kind": p["kind"], "verb": verb}, {"problem": p, "path": s, "cwd_hist": cwd_hist},
                               replay={"wire": [verb, cwd_hist, s]})
        finally:
            rig.close()
    return part


# -- re-login: state of the previous user must not let the next one operate outside its own base --------------
RL_TREE = {"A": {"f": b"fileA", "d": {"g": b"gA"}}, "B": {"f": b"fileB", "d": {"g": b"gB"}}}
RL_SET = ["RNFR f", "CWD d", "REST 2", "RETR f", "MLST f", "DELE nope", "STOR tmp", "LIST", "PWD", "RNFR d/g", "MKD d/n"]
RL_GET = ["RNTO moved", "RETR f", "PWD", "MLST f", "DELE f", "STOR new", "LIST", "CWD d", "MKD n2", "RMD d", "RETR g",
          "APPE f", "RNFR f", "MLSD"]


def relogin_case(item):
    first, sets, gets = item
    part = report.Partial()
    from vf.rig import Rig
    for x in sets:
        for y in gets:
            spy = backends.SpyControl()

            def users(a, base):
                return [a.User("alice", None, base_path="/base/A"), a.User("bob", "pw", base_path="/base/B")]

            rig = Rig(backend="memory", tree=RL_TREE, users=users, spy=spy, base="/base", server_kwargs={"block_size": 4})
            try:
                me, other = ("alice", "bob") if first == "alice" else ("bob", "alice")
                hist = ["@connect", "USER " + me] + (["PASS pw"] if me == "bob" else []) + ["EPSV", "@data", x]
                if x.startswith("STOR"):
                    hist += ["@dsend zz", "@dclose"]
                hist += ["USER " + other] + (["PASS pw"] if other == "bob" else []) + ["EPSV", "@data"]
                for e in hist:
                    rig.ev(0, e)
                mark = len(spy.calls)
                own = "/base/A" if other == "alice" else "/base/B"
                foreign = "/base/B" if other == "alice" else "/base/A"
                before = {k: v for k, v in backends.snapshot_memory_all(rig.server).items() if k.startswith(foreign)}
                r = rig.ev(0, y)
                if y.startswith(("STOR", "APPE")) and r and r[-1][0][:1] == "1":
                    rig.ev(0, "@dsend yy")
                    rig.ev(0, "@dclose")
                problems = []
                for op, pth in spy.calls[mark:]:
                    for q in (pth or "").split(" -> "):
                        if q and not (q == own or q.startswith(own + "/")):
                            problems.append({"kind": "backend-path-outside-base-after-relogin", "op": op, "path": q})
                after = {k: v for k, v in backends.snapshot_memory_all(rig.server).items() if k.startswith(foreign)}
                if after != before:
                    problems.append({"kind": "previous-users-tree-changed-after-relogin"})
                s0 = rig.sessions[0]
                if y.startswith("RETR") and s0.data is not None and s0.data.received and \
                        s0.data.received not in (RL_TREE[own[-1]]["f"], RL_TREE[own[-1]]["d"]["g"]):
                    problems.append({"kind": "foreign-content-served-after-relogin", "data": s0.data.received.decode()})
                part.evaluations += 1
                part.traces += 1
                part.transitions += len(hist) + 1
                k = report.fp(["relogin", first, x, y])
                part.states.add(k)
                part.nontrivial.add(k)
                for p in problems[:1]:
                    part.violation({"kind": p["kind"], "set": x.split(" ")[0], "get": y.split(" ")[0]},
                                   {"problem": p, "history": hist + [y]}, replay={"relogin": [first, x, y]})
            finally:
                rig.close()
    part.sample({"relogin": first, "state_setting": sets[:3], "then": gets[:3]}, limit=1)
    return part


PIPE_BEFORE_USER = ["MKD n", "DELE f", "RMD d/e", "RNFR f", "MLST f", "CWD d", "STOR up", "RETR f", "LIST", "APPE f"]


def run_pipelined_relogin(case, chooser):
    """`<command>` and `USER <other>` written in one segment while the backend's path checks suspend (executor jobs):
    the command was sent as the old user - whatever order the jobs complete in, it must not be carried out in the
    *new* user's base directory (whose password has not even been sent)"""
    from vf.rig import Rig
    first, cmd = case["first"], case["cmd"]
    spy = backends.SpyControl()
    spy.op_job = {"exists", "is_file", "is_dir", "stat"}

    def users(a, base):
        return [a.User("alice", None, base_path="/base/A"), a.User("bob", "pw", base_path="/base/B")]

    rig = Rig(chooser=chooser, backend="memory", tree=RL_TREE, users=users, spy=spy, base="/base",
              server_kwargs={"block_size": 4})
    try:
        chooser.active = False
        spy.armed = False
        me, other = ("alice", "bob") if first == "alice" else ("bob", "alice")
        for e in ["@connect", "USER " + me] + (["PASS pw"] if me == "bob" else []) + ["EPSV", "@data"]:
            rig.ev(0, e)
        spy.armed = True
        own = "/base/A" if me == "alice" else "/base/B"
        foreign = "/base/B" if me == "alice" else "/base/A"
        before = {k: v for k, v in backends.snapshot_memory_all(rig.server).items() if k.startswith(foreign)}
        s0 = rig.sessions[0]
        chooser.active = True
        s0.send((cmd + "\r\nUSER " + other + "\r\n").encode())
        rig.world.settle(3)
        if cmd.startswith(("STOR", "APPE")) and s0.data is not None:
            rig.ev(0, "@dsend zz")
            rig.ev(0, "@dclose")
        chooser.active = False
        rig.world.settle(3)
        rig.collect()
        problems = []
        for op, pth in spy.calls:
            for q in (pth or "").split(" -> "):
                if q and (q == foreign or q.startswith(foreign + "/")):
                    problems.append({"kind": "command-sent-before-USER-carried-out-in-the-new-users-base", "op": op, "path": q,
                                     "sent": [cmd, "USER " + other]})
                    break
        after = {k: v for k, v in backends.snapshot_memory_all(rig.server).items() if k.startswith(foreign)}
        if after != before:
            problems.append({"kind": "new-users-tree-changed-without-its-password", "sent": [cmd, "USER " + other]})
        if s0.data is not None and s0.data.received and cmd.startswith("RETR") and \
                s0.data.received != RL_TREE[own[-1]]["f"]:
            problems.append({"kind": "foreign-content-served", "data": s0.data.received.decode("latin-1")})
        return {"problems": problems, "events": rig.world.net.n_events, "trace": report.fp(rig.world.net.trace)}
    finally:
        rig.close()


def pipelined_relogin_work(item):
    from vf.explore import explore
    from vf.simloop import ReplayDivergence
    case, bound = item
    part = report.Partial()
    kinds = ["order", "early"]
    try:
        for ch, res in explore(lambda c: run_pipelined_relogin(case, c), bound, kinds=kinds, max_exec=3000):
            if ch is None:
                part.caps.append({"pipelined-relogin": case, "cap": 3000})
                break
            part.evaluations += 1
            part.traces += 1
            part.transitions += res["events"]
            part.states.add(res["trace"])
            part.nontrivial.add(res["trace"])
            part.counters[f"pipelined_relogin_exec_dev{ch.deviations}"] += 1
            for p in res["problems"][:1]:
                part.violation({"kind": p["kind"], "verb": case["cmd"].split(" ")[0], "first": case["first"]},
                               {"problem": p, "case": case},
                               replay={"pipelined_relogin": case, "choices": ch.choices, "kinds": kinds})
    except ReplayDivergence as exc:
        part.infra.append(f"replay divergence in pipelined relogin {case}: {exc}")
    return part


def glob_case(item):
    """file-system backends: a name (or a base directory) made of shell-pattern characters addresses exactly itself -
    listing it never shows the contents of the directories the pattern would match"""
    backend, where = item
    from vf.rig import Rig
    from vf.conform import parse_names
    part = report.Partial()
    problems = []
    if where == "name":
        rig = Rig(backend=backend, tree={"secret": {"hidden": b"x"}, "pub": {"p": b"1"}})
        script = [("MKD [s]ecret", None), ("LIST [s]ecret", []), ("MLSD [s]ecret", []), ("CWD pub", None), ("MKD ../p?b", None),
                  ("LIST ../p?b", []), ("MLSD /p?b", []), ("MKD /*", None), ("LIST /*", []), ("LIST /pub", ["p"])]
    else:
        def users(a, base):
            return [a.User(base_path=base / "ftp[1]")]
        rig = Rig(backend=backend, tree={"ftp[1]": {"mine": b"m"}, "ftp1": {"theirs": b"t"}}, users=users)
        script = [("LIST", ["mine"]), ("MLSD /", ["mine"]), ("LIST /", ["mine"])]
    try:
        rig.ev(0, "@connect")
        rig.ev(0, "USER anonymous")
        for line, want in script:
            if want is None:
                rig.ev(0, line)
                continue
            rig.ev(0, "EPSV")
            rig.ev(0, "@data")
            r = rig.ev(0, line)
            s0 = rig.sessions[0]
            got = sorted(parse_names(line.split(" ")[0].lower(), s0.data.received)) if s0.data is not None else None
            codes = [c for c, _ in (r or [])]
            if codes[-1:] == ["226"] or codes[-1:] == ["200"]:
                if got != sorted(want):
                    problems.append({"kind": "listing-shows-another-location", "line": line, "got": got, "want": want})
            part.transitions += 3
        part.evaluations += 1
        part.traces += 1
        k = report.fp(["glob", backend, where])
        part.states.add(k)
        part.nontrivial.add(k)
        for p_ in problems[:1]:
            part.violation({"kind": p_["kind"], "backend": backend, "where": where}, {"problem": p_}, replay={"glob": list(item)})
    finally:
        rig.close()
    return part


HOMES = ["/", "/d", "/d/sub", "//d", "/d/", "/d//sub", "/d/./sub", "/d/../e", "/d/sub/..", "/../d", "/d/sub/../../e/.", "///"]


def _fold(path):
    out = []
    for seg in path.split("/"):
        if seg in ("", "."):
            continue
        if seg == "..":
            if out:
                out.pop()
        else:
            out.append(seg)
    return "/" + "/".join(out)


def home_case(item):
    """every home_path setting: right after login the working directory the server reports (and resolves relative
    paths against, and looks permissions up for) is the normalised absolute form of the home directory"""
    home, = item
    from vf.rig import Rig
    part = report.Partial()
    problems = []

    def users(a, base):
        return [a.User(base_path=base, home_path=home,
                       permissions=[a.Permission("/e", writable=False)])]
    rig = Rig(tree={"d": {"sub": {"x": b"1"}}, "e": {"y": b"2"}}, users=users)
    want = _fold(home)
    try:
        rig.ev(0, "@connect")
        rig.ev(0, "USER anonymous")

        def pwd():
            r = rig.ev(0, "PWD")
            text = " ".join(r[0][1]) if r else ""
            a_ = text.find('"')
            b_ = text.rfind('"')
            return text[a_ + 1:b_] if 0 <= a_ < b_ else None
        got = pwd()
        if got != want:
            problems.append({"kind": "working-directory-not-normalised", "home": home, "pwd": got, "want": want})
        r = rig.ev(0, "MKD probe")
        codes = [c for c, _ in (r or [])]
        snap = rig.snapshot()
        where = (want.rstrip("/") + "/probe")
        allowed = not want.startswith("/e")
        if allowed and where not in snap:
            problems.append({"kind": "relative-path-resolved-elsewhere", "home": home, "expected": where,
                             "tree": sorted(k for k in snap if k.endswith("probe")), "codes": codes})
        if not allowed and (codes != ["550"] or any(k.endswith("probe") for k in snap)):
            problems.append({"kind": "permission-looked-up-for-another-path", "home": home, "codes": codes})
        rig.ev(0, "CDUP")
        got2 = pwd()
        if got2 != _fold(want + "/.."):
            problems.append({"kind": "working-directory-not-normalised", "home": home, "after": "CDUP", "pwd": got2,
                             "want": _fold(want + "/..")})
        part.evaluations += 1
        part.traces += 1
        part.transitions += rig.world.net.n_events
        k = report.fp(["home", home])
        part.states.add(k)
        if home != want:
            part.nontrivial.add(k)
        part.outcomes[report.fp([got, codes])] += 1
        for p_ in problems[:1]:
            part.violation({"kind": p_["kind"], "home_path": True}, {"problem": p_}, replay={"home": list(item)})
    finally:
        rig.close()
    return part


def tilde_case(item):
    """file-system backends with a relative base directory (`python -m aioftp` without --home serves "."): names that
    a shell or `expanduser` would take for a home directory (`~`, `~root`) are plain names - judged on the real file
    system: nothing outside the served directory is read or changed"""
    backend, name = item
    import os
    from vf.rig import Rig
    part = report.Partial()
    problems = []
    rig = Rig(backend=backend, tree={"served": {"pub": {"p": b"1"}}, "home": {"secret.txt": b"HOME-SECRET"}},
              users=lambda a, base: [a.User(base_path=".")])
    old_cwd, old_home = os.getcwd(), os.environ.get("HOME")
    try:
        os.chdir(rig.base / "served")
        os.environ["HOME"] = str(rig.base / "home")
        rig.ev(0, "@connect")
        rig.ev(0, "USER anonymous")
        got = {}
        for line in (f"MKD {name}", "EPSV", "@data", f"STOR {name}/note.txt", "@dsend written-by-client", "@dclose",
                     "EPSV", "@data", "STOR tmp.txt", "@dsend x", "@dclose", "RNFR tmp.txt", f"RNTO {name}/secret.txt",
                     "EPSV", "@data", f"RETR {name}/secret.txt", "EPSV", "@data", f"RETR /{name}/note.txt",
                     "EPSV", "@data", f"APPE {name}/secret.txt", "@dsend y", "@dclose"):
            r = rig.ev(0, line)
            if line.startswith("RETR"):
                s0 = rig.sessions[0]
                got[line] = bytes(s0.data.received) if s0.data is not None else None
        snap = rig.snapshot()
        home_now = {k: v for k, v in snap.items() if k.startswith("/home/")}
        if home_now != {"/home/secret.txt": b"HOME-SECRET"}:
            problems.append({"kind": "changed-outside-the-base-directory", "home": {k: repr(v) for k, v in home_now.items()}})
        if any(v is not None and b"HOME-SECRET" in v for v in got.values()):
            problems.append({"kind": "read-outside-the-base-directory", "got": {k: repr(v) for k, v in got.items()}})
        if snap.get(f"/served/{name}/note.txt") != b"written-by-client":
            problems.append({"kind": "upload-not-where-it-was-addressed", "tree": sorted(snap)})
        if got.get(f"RETR /{name}/note.txt") != b"written-by-client":
            problems.append({"kind": "download-not-from-where-it-was-addressed", "got": {k: repr(v) for k, v in got.items()}})
        part.evaluations += 1
        part.traces += 1
        part.transitions += rig.world.net.n_events
        k = report.fp(["tilde", backend, name])
        part.states.add(k)
        part.nontrivial.add(k)
        for p_ in problems[:1]:
            part.violation({"kind": p_["kind"], "backend": backend, "relative_base": True}, {"problem": p_, "name": name},
                           replay={"tilde": list(item)})
    finally:
        os.chdir(old_cwd)
        if old_home is None:
            os.environ.pop("HOME", None)
        else:
            os.environ["HOME"] = old_home
        rig.close()
    return part


def encoding_case(item):
    """one-byte server encodings: every byte is a letter there, also those that are telnet commands (IAC, IP, DM ...) on
    a utf-8 wire - a name made of them addresses exactly itself"""
    enc, firsts = item
    from vf.rig import Rig
    part = report.Partial()
    problems = []
    rig = Rig(tree={}, server_kwargs={"encoding": enc})
    try:
        w = rig.world
        s0 = rig.sessions[0]
        rig.ev(0, "@connect")
        rig.ev(0, "USER anonymous")
        names = []
        for f in firsts:
            for b in range(0x80, 0x100):
                raw = bytes([0x61, f, b, 0x62])
                try:
                    name = raw.decode(enc)
                except UnicodeDecodeError:
                    continue
                if name != name.strip() or any(ch.isspace() for ch in name):
                    continue
                names.append((raw, name))
        for raw, name in names:
            s0.send(b"MKD " + raw + b"\r\n")
        w.settle(0)
        replies = s0.ctl.take_replies()
        snap = rig.snapshot()
        made = sorted(k[1:] for k in snap)
        want = sorted(n for _, n in names)
        if made != want:
            missing = [n for n in want if n not in made][:5]
            extra = [n for n in made if n not in want][:5]
            problems.append({"kind": "name-addresses-another-location", "encoding": enc, "missing": missing, "instead": extra,
                             "replies": len(replies)})
        part.evaluations += len(names)
        part.traces += 1
        part.transitions += w.net.n_events
        k = report.fp(["encoding", enc, firsts])
        part.states.add(k)
        part.nontrivial.add(k)
        for p_ in problems[:1]:
            part.violation({"kind": p_["kind"], "encoding": enc}, {"problem": p_}, replay={"encoding": [enc, list(firsts)]})
    finally:
        rig.close()
    return part


def late_case(item):
    """the working directory changes between a transfer verb and the arrival of its data connection: the location
    actually addressed (and every backend call) must be the one the verb named when it arrived"""
    verb, cwd1, cwd2, arg = item
    from vf.conform import step_late
    part = report.Partial()
    conf = Conf([M.UserSpec(None)], WTREE)
    rig = conf.new_rig()
    model = conf.new_model()
    try:
        rig.ev(0, "@connect")
        problems = []
        hist = ["USER anonymous", "EPSV", "CWD " + cwd1]
        for line in hist:
            pr, obs = conf_step(rig, model, line, conf)
            problems += pr
        if not problems:
            pr, obs = step_late(rig, model, f"{verb} {arg}".rstrip(), "CWD " + cwd2, conf)
            problems += pr
        if not problems:
            pr, obs = conf_step(rig, model, "PWD", conf)
            problems += pr
        part.evaluations += 1
        part.traces += 1
        part.transitions += len(hist) + 3
        k = report.fp(["late", verb, cwd1, cwd2, arg])
        part.states.add(k)
        part.nontrivial.add(k)
        part.sample({"history": hist + [f"{verb} {arg} (no data connection yet)", "CWD " + cwd2, "@data", "PWD"]}, limit=1)
        for p in problems[:1]:
            part.violation({"kind": p["kind"], "verb": verb, "late_data": True}, {"problem": p, "cwd1": cwd1, "cwd2": cwd2,
                                                                                  "arg": arg}, replay={"late": list(item)})
    finally:
        rig.close()
    return part


def late_items():
    return [(v, c1, c2, a) for v in ("MLSD", "LIST", "RETR", "STOR", "APPE")
            for c1, c2 in (("/a", "/b"), ("/a/b", "/"), ("/", "/a"), ("/a", "/a/b"))
            for a in (("", ".", "b", "..", "../b") if v in ("MLSD", "LIST") else ("f", "../f", "new", "./f"))]


def wire_items(tier):
    items = []
    s2 = wire_strings(2)
    s3 = wire_strings(3)
    for verb in WVERBS:
        for ch in WCWD_HISTS:
            strings = s3 if (tier != "quick" or (verb in ("CWD", "STOR", "RETR") and ch in ([], ["CWD a/b"]))) else s2
            for i in range(0, len(strings), 120):
                items.append((verb, ch, strings[i:i + 120]))
    return items


def run(tier, seed, t0):
    fitems, nstrings = func_items(tier)
    ritems = [(first, [x], RL_GET) for first in ("alice", "bob") for x in RL_SET]
    parts = report.pmap(func_work, fitems) + report.pmap(wire_case, wire_items(tier)) + report.pmap(relogin_case, ritems) + report.pmap(late_case, late_items())
    # a pipelined CWD while the previous command's path checks are suspended in the backend (scenario shared with
    # C04): the location operated on must be the one the permission lookup was made for
    from checks import c04
    pitems = []
    for case, bound in c04.pipelined_cwd_items(tier):
        if case["table"] in ("none", "priv-ro", "pub-ro"):
            pitems.append((dict(case, only_kind="operated-on-a-location-other-than-the-one-looked-up"), bound))
    pparts = report.pmap(c04.pipelined_cwd_work, pitems)
    for pp in pparts:
        for v in pp.violations:
            v["replay"] = {"pipelined_cwd": v["replay"]}
    parts += pparts
    parts += report.pmap(glob_case, [(b, wh) for b in ("pathio", "async") for wh in ("name", "base")])
    parts += report.pmap(home_case, [(h,) for h in HOMES])
    parts += report.pmap(encoding_case, [(enc, firsts) for enc in ("latin-1", "cp1251", "koi8-r", "cp437")
                                         for firsts in ([0xff], [0xfe, 0xfd, 0xfc, 0xfb], [0xf2, 0xf4, 0xf0, 0xfa])])
    parts += report.pmap(tilde_case, [(b, n) for b in ("pathio", "async") for n in ("~", "~root", "~nobody", "$HOME", "%HOME%")])
    parts += report.pmap(pipelined_relogin_work, [({"first": first, "cmd": cmd}, 1 if tier == "quick" else 2)
                                                  for first in ("alice", "bob") for cmd in PIPE_BEFORE_USER])
    part = report.merge_all(parts)
    bounds = {"function": {"segments": SEGS, "prefixes": PREFIXES, "max_segments": 3 if tier == "quick" else 4,
                           "path_strings": nstrings, "cwds": len(cwds()), "bases": BASES},
              "wire": {"segments": WSEGS, "verbs": WVERBS, "cwd_histories": WCWD_HISTS,
                       "max_segments": "2 (3 for CWD/STOR/RETR)" if tier == "quick" else 3},
              "one_byte_encodings": "latin-1, cp1251, koi8-r, cp437: names a<X><Y>b for X in the telnet command bytes 0xF0..0xFF and every high byte Y",
              "home_paths": HOMES,
              "relative_base": "file-system backends serving '.', names ~ ~root ~nobody $HOME %HOME%: judged on the real file system",
              "shell_pattern_names": "file-system backends: names `[s]ecret`, `p?b`, `*` and a base directory `ftp[1]` next to `ftp1`",
              "pipelined_relogin": "a command and USER <other user> in one segment, path checks suspended (<= d completion-order "
                                   "deviations): no backend call and no change in the other user's base directory",
              "pipelined_cwd": "scenario of C04 (suspending path checks, pipelined CWD, <= d deviations): every mutating "
                               "backend call names a path for which a permission lookup was made",
              "relogin": {"users": "alice (base /base/A), bob (base /base/B, password)", "state_setting": RL_SET,
                          "after_relogin": RL_GET}}
    return report.finish(
        PID, tier, seed, "model_checking", part, t0,
        rule="function level: exhaustive (base, cwd, path string) enumeration of Server.get_paths against an independent "
             "resolver and a lexical containment oracle in the flavour of the base path; wire level: every (verb, cwd "
             "history, path string) on the real server with a spy backend rooted at /base inside a larger in-memory file "
             "system: no backend call may name a path outside /base, nothing outside may change, replies and PWD follow "
             "the reference model. Non-trivial = path with '..', '//' or a leading slash.",
        bounds=bounds,
        assumptions=["environment model SimLoop/SimNet", "containment is lexical (symlinks are outside the property)"])


def replay(path):
    data = json.loads(open(path).read())
    rp = data["replay"]
    if "encoding" in rp:
        part = encoding_case((rp["encoding"][0], rp["encoding"][1]))
        print(json.dumps([v["detail"] for v in part.violations], indent=1, default=repr))
        return 1 if part.violations else 0
    if "tilde" in rp:
        part = tilde_case(tuple(rp["tilde"]))
        print(json.dumps([v["detail"] for v in part.violations], indent=1, default=repr))
        return 1 if part.violations else 0
    if "home" in rp:
        part = home_case(tuple(rp["home"]))
        print(json.dumps([v["detail"] for v in part.violations], indent=1, default=repr))
        return 1 if part.violations else 0
    if "glob" in rp:
        part = glob_case(tuple(rp["glob"]))
        print(json.dumps([v["detail"] for v in part.violations], indent=1, default=repr))
        return 1 if part.violations else 0
    if "pipelined_relogin" in rp:
        from vf.simloop import Chooser
        res = run_pipelined_relogin(rp["pipelined_relogin"], Chooser(rp["choices"], rp["kinds"]))
        print(json.dumps(res["problems"], indent=1, default=repr))
        return 1 if res["problems"] else 0
    if "pipelined_cwd" in rp:
        from checks import c04
        from vf.simloop import Chooser
        q = rp["pipelined_cwd"]
        res = c04.run_pipelined_cwd(q["pipelined_cwd"], Chooser(q["choices"], q["kinds"]))
        pr = [x for x in res["problems"] if x["kind"] == "operated-on-a-location-other-than-the-one-looked-up"]
        print(json.dumps(pr, indent=1, default=repr))
        return 1 if pr else 0
    if "late" in rp:
        part = late_case(tuple(rp["late"]))
    elif "relogin" in rp:
        first, x, y = rp["relogin"]
        part = relogin_case((first, [x], [y]))
    elif "func" in rp:
        flavour, base, cwd, s = rp["func"]
        part = func_work((flavour, base, [s]))
        part.violations = [v for v in part.violations if v["detail"]["cwd"] == cwd]
    else:
        verb, ch, s = rp["wire"]
        part = wire_case((verb, ch, [s]))
    print(json.dumps([v["detail"] for v in part.violations], indent=1, default=repr))
    return 1 if part.violations else 0
