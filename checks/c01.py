"""C01 Transferred bytes are exact (STOR / APPE / RETR, whole or from a restart offset).

E3: op x payload x offset x server block size x client chunking x backend x
passive mode x throttle, through the real aioftp.Client and aioftp.Server in
SimLoop, with a second session reading back immediately after the uploader got
its completion reply.  E1: a subset under every schedule with <= d deviations
(incl. re-segmentation of the control and data streams).  DESIGN.md §5 C01.
"""
import asyncio
import itertools
import json

from vf import report, backends
from vf.explore import explore
from vf.rig import Rig
from vf.simloop import Chooser, ReplayDivergence, all_split_positions
from vf.world import Hang

PID = "C01"
OLD = bytes((i * 11 + 5) % 251 for i in range(9))      # existing file content (9 bytes)


def pay(n):
    return bytes((i * 7 + 3) % 251 for i in range(n))


FAMILIES = {
    "all256": bytes(range(256)),
    "crlf": b"\r\n\r\r\n\n\r",
    "nul": b"\0\0\0a\0",
    "iac": b"\xff\xff\xf4\xff\xfdab\xff",
    "lf-run": b"\n" * 7,
}


def compositions(n):
    if n == 0:
        yield []
        return
    for first in range(1, n + 1):
        for rest in compositions(n - first):
            yield [first] + rest


def chunkings(n, b):
    out = {"whole": [n] if n else []}
    if n:
        out["1-byte"] = [1] * n
        for name, c in (("b-1", b - 1), ("b+1", b + 1)):
            if c >= 1:
                ch = [c] * (n // c) + ([n % c] if n % c else [])
                out[name] = ch
    return out


def expected_upload(op, old, data, k):
    """model of §5 C01: old is None for a new file"""
    if k:
        if old is None:
            return None          # left to C18
        if not data:
            return old
        return old[:k].ljust(k, b"\0") + data + old[k + len(data):]
    if op == "APPE":
        return (old or b"") + data
    return data


def run_case(case, chooser):
    op, target, n, k, b = case["op"], case["target"], case["n"], case["k"], case["b"]
    data = FAMILIES[case["family"]] if case.get("family") else pay(n)
    chunks = case["chunks"]
    bk = {"memory": dict(backend="memory"), "slow": dict(backend="slow", delay=0.125),
          "pathio": dict(backend="pathio"), "async": dict(backend="async"),
          # a custom backend as the PathIO API allows it: written data reaches the file when it is closed (buffered
          # file object) and close() itself suspends (an executor job the explorer completes when it chooses)
          "buffered": dict(backend="memory"),
          # read() returns fewer bytes than asked for although more are there (legal: "read some data")
          "shortread": dict(backend="memory")}[case["backend"]]
    if case["backend"] == "shortread":
        bk["spy"] = backends.SpyControl()
        bk["spy"].read_cap = 2
    if case["backend"] == "buffered":
        bk["spy"] = backends.SpyControl()
        bk["spy"].buffered = True
        bk["spy"].close_job = case.get("close", "job") == "job"
        bk["spy"].close_delay = 0.5 if case.get("close") == "delay" else 0.0
    skw = {"block_size": b, "wait_future_timeout": 5}
    if case.get("socket_timeout"):
        skw["socket_timeout"] = case["socket_timeout"]
    thr = case.get("throttle")
    if thr == "server-read":
        skw["read_speed_limit"] = 64
    elif thr == "server-write":
        skw["write_speed_limit_per_connection"] = 64
    rig = Rig(chooser=chooser, tree={"old": OLD, "d": {}}, server_kwargs=skw, window=case.get("window", 65536), **bk)
    a = rig.world.aioftp
    w = rig.world
    if case.get("split_all"):
        w.net.split_policy = all_split_positions
    if case.get("sndbuf") is not None:
        # the transport keeps what the kernel has not taken yet *by reference* (as asyncio does): a backend or a stream
        # that re-uses its buffer for the next block changes bytes that are still waiting to be sent
        w.net.sndbuf = case["sndbuf"]
    problems = []
    old = OLD if target == "old" else None
    ckw = {"passive_commands": (case.get("passive", "epsv"),), "path_io_factory": a.MemoryPathIO}
    if thr == "client-write":
        ckw["write_speed_limit"] = 64
    if thr == "client-read":
        ckw["read_speed_limit"] = 64
    if thr == "client-read-tiny":
        ckw["read_speed_limit"] = 4            # smaller than the file: several throttle periods per download
    if thr == "client-write-tiny":
        ckw["write_speed_limit"] = 3
    result = {}

    observer = case.get("observer")

    async def observe(c2, path):
        """another session looks at the file / directory while the transfer is suspended half-way"""
        if observer == "stat":
            await c2.stat(path)
            await c2.list("/")
            await c2.list("/", raw_command="LIST")
            await c2.exists(path)
        elif observer == "retr":
            async with c2.download_stream("/old") as st2:
                result["observer_data"] = await st2.read()

    async def main():
        c1 = a.Client(**ckw)
        c2 = a.Client(path_io_factory=a.MemoryPathIO)
        await c1.connect("127.0.0.1", 2121)
        await c1.login()
        await c2.connect("127.0.0.1", 2121)
        await c2.login()
        chooser.active = True
        path = "/" + target
        if op in ("STOR", "APPE"):
            fn = c1.upload_stream if op == "STOR" else c1.append_stream
            try:
                async with fn(path, offset=k) as st:
                    pos = 0
                    for n_chunk, ln in enumerate(chunks):
                        await st.write(data[pos:pos + ln])
                        pos += ln
                        if observer and n_chunk == 0:
                            await observe(c2, path)
                        if case.get("pause") and n_chunk == 0:
                            # the uploader goes quiet for longer than the server's socket_timeout, then carries on
                            await asyncio.sleep(case["pause"])
                result["completed"] = True
            except (a.StatusCodeError, ConnectionError) as exc:
                result["completed"] = False
                result["error"] = repr(exc)[:200]
            # the read-back is explored too when the backend's close() suspends: the completion reply must not
            # overtake the close
            chooser.active = case["backend"] == "buffered"
            if result["completed"] or case.get("pause"):
                if not result["completed"]:
                    # the upload was given up by the server (no completion reply): nothing to read back through c1's eyes
                    c1.close()
                    c2.close()
                    return
                # completion reply received: every later download/stat/listing reflects the new content
                async with c2.download_stream(path) as st:
                    result["readback"] = await st.read()
                result["stat_size"] = int((await c2.stat(path))["size"])
                result["list_size"] = [int(i["size"]) for p, i in await c2.list("/") if str(p) == path]
        else:
            got = bytearray()
            rs = case["readsize"]
            async with c1.download_stream(path, offset=k) as st:
                n_blk = 0
                while True:
                    # readsize -1: one read() call for the whole stream ("read until EOF")
                    if rs == -1:
                        got += await st.read()
                        break
                    if case.get("read_patience"):
                        # a caller that does not wait longer than so long for one read and simply asks again
                        # (StreamReader.read is safe to cancel: nothing that was received may get lost)
                        try:
                            blk = await asyncio.wait_for(st.read(rs), case["read_patience"])
                        except asyncio.TimeoutError:
                            result["reissued"] = result.get("reissued", 0) + 1
                            if result["reissued"] > 500:
                                raise
                            continue
                    else:
                        blk = await st.read(rs)
                    if not blk:
                        break
                    got += blk
                    n_blk += 1
                    if observer and n_blk == 1:
                        await observe(c2, path)
            result["completed"] = True
            result["data"] = bytes(got)
            chooser.active = False
        c1.close()
        c2.close()

    try:
        chooser.active = False
        try:
            w.run(main())
        except Hang:
            problems.append({"kind": "hang", "t": w.loop.time()})
        except Exception as exc:
            problems.append({"kind": "client-exception", "exc": repr(exc)[:300]})
        chooser.active = False
        snap = rig.snapshot()
        if not problems:
            if op in ("STOR", "APPE"):
                want = expected_upload(op, old, data, k)
                if want is None:
                    pass
                elif not result.get("completed"):
                    if not case.get("pause"):
                        problems.append({"kind": "upload-refused", "error": result.get("error")})
                else:
                    stored = snap.get("/" + target)
                    if stored != want:
                        problems.append({"kind": "stored-bytes", "got": repr(stored)[:120], "want": repr(want)[:120]})
                    if result.get("readback") != want:
                        problems.append({"kind": "stale-or-wrong-readback", "got": repr(result.get("readback"))[:120],
                                         "want": repr(want)[:120]})
                    if result.get("stat_size") != len(want) or result.get("list_size") != [len(want)]:
                        problems.append({"kind": "stale-or-wrong-size", "stat": result.get("stat_size"),
                                         "list": result.get("list_size"), "want": len(want)})
            else:
                want = OLD[k:]
                if result.get("data") != want:
                    problems.append({"kind": "downloaded-bytes", "got": repr(result.get("data"))[:120],
                                     "want": repr(want)[:120]})
            if observer == "retr" and result.get("observer_data") != OLD:
                problems.append({"kind": "observer-download-bytes", "got": repr(result.get("observer_data"))[:120]})
        return {"problems": problems, "trace": report.fp(w.net.trace), "events": w.net.n_events,
                "outcome": report.fp([op, result.get("completed"), len(snap.get("/" + target) or b"")])}
    finally:
        rig.close()


def run_pipelined(case, chooser):
    """REST k, a transfer and one more command arrive in one segment (the server runs every command as its own
    task): the transfer still starts at k whatever comes after it and however the backend's answers are ordered"""
    op, k, after, bname = case["op"], case["k"], case["after"], case["backend"]
    spy = None
    if bname == "jobs":
        # every path lookup of the backend first waits for an executor job (an environment event)
        spy = backends.SpyControl()
        spy.op_job = {"exists", "is_file", "is_dir", "stat"}
    rig = Rig(chooser=chooser, tree={"old": OLD, "other": b"OTHER-FILE", "sub": {"old": b"ANOTHER-OLD-IN-SUB"}}, spy=spy, n_sessions=1,
              backend="memory" if bname == "jobs" else bname, server_kwargs={"block_size": 3, "wait_future_timeout": 2})
    problems = []
    try:
        chooser.active = False
        w = rig.world
        if spy is not None:
            spy.armed = False
        # (late: the data connection is made only after the whole segment has been dealt with - the file meant is the
        # one the name stood for when the transfer command was accepted)
        late = case.get("late", False)
        for e in ("@connect", "USER anonymous", "EPSV") + (() if late else ("@data",)):
            rig.ev(0, e)
        if spy is not None:
            spy.armed = True
        s0 = rig.sessions[0]
        lines = [f"REST {k}", f"{op} old", after]
        if case.get("between"):
            # a restart offset holds for the command right behind it and no other: with any command in between - also
            # the one that sets up the data connection - the transfer is a whole one
            rig.ev(0, f"REST {k}")
            rig.ev(0, case["between"])
            if case["between"] in ("EPSV", "PASV"):
                rig.ev(0, "@data")
            lines = [f"REST {k}", case["between"], f"{op} old", after]
            k = 0
            chooser.active = True
            s0.send(f"{op} old\r\n{after}\r\n".encode())
        else:
            chooser.active = True
            s0.send(("\r\n".join(lines) + "\r\n").encode())
        if late:
            w.settle(0)
            rig.ev(0, "@data")
        w.settle(5)
        data = b"NEWDATA"
        if op in ("STOR", "APPE") and s0.data is not None:
            rig.ev(0, "@dsend " + data.decode())
            rig.ev(0, "@dclose")
        chooser.active = False
        w.settle(5)
        rig.collect()
        codes = [cd for _, r in s0.transcript for cd, _ in r]
        snap = rig.snapshot()
        if op == "RETR":
            got = s0.data.received if s0.data is not None else None
            if got != OLD[k:]:
                problems.append({"kind": "pipelined-restart-downloaded-bytes", "got": repr(got)[:80], "want": repr(OLD[k:]),
                                 "sent": lines, "codes": codes[-5:]})
        else:
            want = expected_upload(op, OLD, data, k)
            if snap.get("/old") != want:
                problems.append({"kind": "pipelined-restart-stored-bytes", "got": repr(snap.get("/old"))[:80],
                                 "want": repr(want), "sent": lines, "codes": codes[-5:]})
        if snap.get("/sub/old") != b"ANOTHER-OLD-IN-SUB":
            problems.append({"kind": "pipelined-restart-other-file-changed", "got": repr(snap.get("/sub/old"))[:80]})
        if snap.get("/other") != b"OTHER-FILE":
            problems.append({"kind": "pipelined-restart-other-file-changed", "got": repr(snap.get("/other"))[:80]})
        return {"problems": problems, "trace": report.fp(w.net.trace), "events": w.net.n_events,
                "outcome": report.fp([op, codes[-4:]])}
    except Hang:
        return {"problems": [{"kind": "hang"}], "trace": report.fp(rig.world.net.trace), "events": rig.world.net.n_events,
                "outcome": "hang"}
    finally:
        rig.close()


def _work(item):
    case, bound, kinds, cap = item
    part = report.Partial()
    try:
        fn = run_pipelined if case.get("pipelined") else run_case
        for ch, res in explore(lambda c: fn(case, c), bound, kinds=kinds, max_exec=cap):
            if ch is None:
                part.caps.append({"case": case, "cap": cap})
                break
            part.evaluations += 1
            part.traces += 1
            part.transitions += res["events"]
            part.states.add(res["trace"])
            if ch.deviations or case.get("n", 0) > case.get("b", 0) or case["k"]:
                part.nontrivial.add(res["trace"])
            part.outcomes[res["outcome"]] += 1
            part.counters[f"exec_dev{ch.deviations}"] += 1
            if ch.deviations:
                part.sample({"case": case, "choices": ch.choices}, limit=1)
            for p in res["problems"]:
                part.violation({"kind": p["kind"], "op": case["op"], "rest": bool(case["k"]), "observer": case.get("observer"),
                                "backend_suspends": case["backend"] in ("slow", "async", "buffered", "jobs")},
                               {"problem": p, "case": case, "deviations": ch.deviations},
                               replay={"case": case, "choices": ch.choices, "kinds": kinds})
                break
    except ReplayDivergence as exc:
        part.infra.append(f"replay divergence {case}: {exc}")
    return part


def grid(tier):
    blocks = [1, 3] if tier == "quick" else [1, 2, 3, 5, 8192]
    backs = ["memory", "pathio", "async"] if tier == "quick" else ["memory", "slow", "pathio", "async"]
    items = []
    for b in blocks:
        bb = b if b < 100 else 4
        lens = sorted({0, 1, max(bb - 1, 0), bb, bb + 1, 2 * bb, 2 * bb + 1, max(3 * bb - 1, 0)})
        for backend in backs:
            for op, target in (("STOR", "new"), ("STOR", "old"), ("APPE", "new"), ("APPE", "old")):
                for n in lens:
                    offs = [0] if target == "new" else [0, 4, len(OLD), len(OLD) + 3]
                    for k in offs:
                        for cname, chunks in chunkings(n, bb).items():
                            if tier == "quick" and cname in ("b-1",) and backend != "memory":
                                continue
                            items.append(({"op": op, "target": target, "n": n, "k": k, "b": b, "chunks": chunks,
                                           "backend": backend}, 0, [], None))
            for k in (0, 4, len(OLD), len(OLD) + 3):
                for rs in (1, max(bb - 1, 1), bb + 1, 8192):
                    items.append(({"op": "RETR", "target": "old", "n": len(OLD), "k": k, "b": b, "chunks": [],
                                   "readsize": rs, "backend": backend}, 0, [], None))
    for b in (3, 5, 8192):
        for k in (0, 4, len(OLD)):
            for rs in (1, 4, 8192):
                items.append(({"op": "RETR", "target": "old", "n": len(OLD), "k": k, "b": b, "chunks": [],
                               "readsize": rs, "backend": "shortread"}, 0, [], None))
    for backend in ("memory", "pathio", "async"):
        for b in (1, 3):
            for k in (0, 4):
                for sndbuf in (0, 2):
                    items.append(({"op": "RETR", "target": "old", "n": len(OLD), "k": k, "b": b, "chunks": [],
                                   "readsize": 8192, "backend": backend, "sndbuf": sndbuf}, 0, [], None))
        for op, target in (("STOR", "new"), ("APPE", "old")):
            items.append(({"op": op, "target": target, "n": 7, "k": 0, "b": 3, "chunks": [3, 2, 2], "backend": backend,
                           "sndbuf": 1}, 0, [], None))
    # byte families, both passive modes, throttles
    for fam, data in FAMILIES.items():
        for op, target in (("STOR", "new"), ("APPE", "old")):
            for passive in ("epsv", "pasv"):
                for thr in (None, "server-read", "client-write"):
                    if tier == "quick" and fam == "all256" and thr:
                        continue
                    items.append(({"op": op, "target": target, "n": len(data), "k": 0, "b": 3, "family": fam,
                                   "chunks": [len(data)], "backend": "memory", "passive": passive, "throttle": thr},
                                  0, [], None))
    for thr in ("server-write", "client-read"):
        items.append(({"op": "RETR", "target": "old", "n": len(OLD), "k": 2, "b": 3, "chunks": [], "readsize": 2,
                       "backend": "memory", "throttle": thr}, 0, [], None))
    # every client-side way of reading (block-wise, one read() for everything) x every throttle incl. limits far below
    # the file size, whole and from an offset
    for thr in (None, "server-write", "server-read", "client-read", "client-read-tiny", "client-write"):
        for rs in (-1, 1, 4, 8192):
            for k in (0, 4):
                items.append(({"op": "RETR", "target": "old", "n": len(OLD), "k": k, "b": 3, "chunks": [], "readsize": rs,
                               "backend": "memory", "throttle": thr}, 0, [], None))
    # impatient readers: every read given up after a while (inside a throttle pause) and asked for again
    for thr in ("client-read-tiny", "client-read", "server-write", None):
        for rs in (1, 4, 8192):
            for k in (0, 4):
                for patience in (0.3, 0.7):
                    items.append(({"op": "RETR", "target": "old", "n": len(OLD), "k": k, "b": 3, "chunks": [], "readsize": rs,
                                   "backend": "memory", "throttle": thr, "read_patience": patience}, 0, [], None))
    for thr in ("client-write-tiny", "client-read-tiny"):
        for op, target in (("STOR", "new"), ("APPE", "old"), ("STOR", "old")):
            items.append(({"op": op, "target": target, "n": 7, "k": 0, "b": 3, "chunks": [7], "backend": "memory",
                           "throttle": thr}, 0, [], None))
    # all compositions for tiny payloads
    for n in range(1, 6 if tier == "quick" else 7):
        for comp in compositions(n):
            items.append(({"op": "STOR", "target": "new", "n": n, "k": 0, "b": 2, "chunks": comp, "backend": "memory"},
                          0, [], None))
    # E1: schedules with <= d deviations incl. re-segmentation
    kinds = ["early", "order", "split"]
    e1_backs = ["memory", "slow"] if tier == "quick" else ["memory", "slow", "async"]
    d = 1 if tier == "quick" else 2
    for backend in e1_backs:
        for op, target, k in (("STOR", "new", 0), ("STOR", "old", 4), ("APPE", "old", 0), ("RETR", "old", 0),
                              ("RETR", "old", 4)):
            c = {"op": op, "target": target, "n": 7, "k": k, "b": 3, "chunks": [4, 3], "readsize": 2,
                 "backend": backend, "window": 1 if backend == "slow" else 65536}
            items.append((c, d if backend == "memory" else 1, kinds, 3000 if tier == "quick" else 60000))
    for op, target, k in (("STOR", "new", 0), ("STOR", "old", 4), ("APPE", "old", 0), ("APPE", "new", 0)):
        for close in ("job", "delay"):
            c = {"op": op, "target": target, "n": 7, "k": k, "b": 3, "chunks": [4, 3], "readsize": 2, "backend": "buffered",
                 "close": close}
            items.append((c, d, ["early", "order"], 3000 if tier == "quick" else 60000))
    # an upload that stalls for longer than the server's socket_timeout and then goes on: either it fails (no 2xx
    # completion) or what is stored is the whole payload - never a 226 for a prefix
    for backend in ("memory", "pathio"):
        for op, target in (("STOR", "new"), ("APPE", "old"), ("STOR", "old")):
            for st, pause in ((2, 3), (2, 1), (None, 3)):
                c = {"op": op, "target": target, "n": 7, "k": 0, "b": 3, "chunks": [3, 2, 2], "backend": backend,
                     "socket_timeout": st, "pause": pause}
                items.append((c, 0, [], None))
    # another session looks at (stat / listings) or downloads the same file while the transfer is suspended half-way
    # (lock-step send window: every block is a network event)
    for backend in (["memory", "slow", "pathio"] if tier == "quick" else ["memory", "slow", "pathio", "async"]):
        for obs in ("stat", "retr"):
            for op, target, k in (("STOR", "new", 0), ("STOR", "old", 4), ("APPE", "old", 0), ("RETR", "old", 0),
                                  ("RETR", "old", 4)):
                if obs == "retr" and op != "RETR":
                    continue
                c = {"op": op, "target": target, "n": 7, "k": k, "b": 3, "chunks": [3, 2, 2], "readsize": 2,
                     "backend": backend, "window": 1, "observer": obs}
                items.append((c, 0, [], None))
    # all segmentations of a tiny data stream
    c = {"op": "STOR", "target": "new", "n": 5, "k": 0, "b": 2, "chunks": [5], "backend": "memory", "split_all": True}
    items.append((c, 1 if tier == "quick" else 2, ["split"], 5000))
    c = {"op": "RETR", "target": "old", "n": 9, "k": 3, "b": 8192, "chunks": [], "readsize": 8192, "backend": "memory",
         "split_all": True}
    items.append((c, 1 if tier == "quick" else 2, ["split"], 5000))
    # REST, the transfer and one more command in one segment (handlers are concurrent tasks in the server)
    for backend in ("memory", "jobs", "async"):
        for op in ("RETR", "STOR", "APPE"):
            for k in (0, 4):
                for after in ("RETR missing", "STOR d/x/y", "NOOP", "REST 2", "PWD", "APPE missing/z"):
                    c = {"pipelined": True, "op": op, "k": k, "after": after, "backend": backend}
                    items.append((c, 1 if tier == "quick" else 2, ["order"], 3000 if tier == "quick" else 60000))
                # ... a restart offset that was not used at once (another command in between: the transfer is whole)
                if k:
                    for between in ("EPSV", "PASV", "NOOP", "TYPE I", "PWD", "SYST", "MODE S", "FEAT"):
                        c = {"pipelined": True, "op": op, "k": k, "after": "NOOP", "backend": backend, "between": between}
                        items.append((c, 1 if tier == "quick" else 2, ["order"], 3000 if tier == "quick" else 60000))
                # ... a change of the working directory behind a transfer by relative name, the data connection made late
                for after in ("CWD sub", "CDUP", "PWD"):
                    c = {"pipelined": True, "op": op, "k": k, "after": after, "backend": backend, "late": True}
                    items.append((c, 1 if tier == "quick" else 2, ["order"], 3000 if tier == "quick" else 60000))
    return items


def run(tier, seed, t0):
    items = grid(tier)
    if seed:
        k = seed % len(items)
        items = items[k:] + items[:k]
    part = report.merge_all(report.pmap(_work, items))
    bounds = {"ops": ["STOR new/over", "APPE new/existing", "STOR/APPE + REST", "RETR", "RETR + REST"],
              "block_sizes": [1, 3] if tier == "quick" else [1, 2, 3, 5, 8192],
              "payload_lengths": "0,1,b-1,b,b+1,2b,2b+1,3b-1 + families all256/crlf/nul/iac/lf-run",
              "offsets": "0, inside, at end, beyond end", "chunkings": "whole, 1-byte, b-1, b+1, all compositions for len<=5",
              "backends": ["memory", "pathio", "async", "slow", "buffered (custom: data lands at close, close() suspends)"],
              "passive": ["epsv", "pasv"], "throttle": ["off", "server read/write", "client read/write", "client limits far below the file size"],
              "send_buffer": "data beyond a 0-2 byte kernel buffer is kept by reference until the peer takes it (buffer re-use shows)",
              "client_read_styles": ["read(n) loops", "one read() until EOF", "reads given up after 0.3 / 0.7 s and re-issued"],
              "pipelined": "REST k + transfer + one more command in one segment x {memory, lookups waiting for executor "
                           "jobs, async} x order deviations",
              "stale_restart": "REST 4, one of EPSV PASV NOOP 'TYPE I' PWD SYST 'MODE S' FEAT, then RETR / STOR / APPE: a whole transfer",
              "deviation_bound": 1 if tier == "quick" else 2, "cases": len(items)}
    return report.finish(
        PID, tier, seed, "model_checking", part, t0,
        rule="case = (op, target, payload, offset, block size, chunking, backend, passive mode, throttle) executed with "
             "the real client and server in SimLoop, a second session reading back right after the completion reply; "
             "E1 cases additionally under every schedule with <= d deviations (early delivery, reordering, every split "
             "position). Non-trivial = multi-block payload, restart offset or a schedule deviation; distinct by "
             "delivery-trace hash.",
        bounds=bounds,
        assumptions=["environment model SimLoop/SimNet", "REST into a missing file is left to C18"])


def replay(path):
    data = json.loads(open(path).read())
    rp = data["replay"]
    fn = run_pipelined if rp["case"].get("pipelined") else run_case
    res = fn(rp["case"], Chooser(rp["choices"], rp.get("kinds") or None))
    print(json.dumps({"case": rp["case"], "problems": res["problems"]}, indent=1, default=repr))
    return 1 if res["problems"] else 0
