"""Script corpus shared by C12, C13, C14, C16, C17 (single raw session, after connect + login)."""

FILE = b"0123456789"          # 3 blocks of 4 (4 + 4 + 2) with block_size 4
OTHER = b"OTHER-SESSION-FILE"
TREE = {"d": {"f": FILE}, "g": b"x", "e": {}, "o": OTHER}
BLOCK = 4
SERVER_KW = {"block_size": BLOCK, "wait_future_timeout": 1}

SCRIPTS = {
    "login-only": [],
    "pwd": ["PWD"],
    "list": ["EPSV", "@data", "LIST"],
    "list-d": ["PASV", "@data", "LIST d"],
    "mlsd": ["PASV", "@data", "MLSD"],
    "mlst": ["MLST d/f"],
    "retr": ["EPSV", "@data", "RETR d/f"],
    "stor": ["EPSV", "@data", "STOR new", "@dsend 0123", "@dsend 4567", "@dsend 89", "@dclose"],
    "appe": ["EPSV", "@data", "APPE g", "@dsend abcd", "@dsend ef", "@dclose"],
    "rest-retr": ["EPSV", "@data", "REST 3", "RETR d/f"],
    "rest-stor": ["EPSV", "@data", "REST 2", "STOR d/f", "@dsend XY", "@dclose"],
    "rename": ["RNFR g", "RNTO h"],
    "pasv-twice": ["PASV", "PASV", "EPSV"],
    "pasv-no-transfer": ["PASV", "@data", "PWD"],
    "no-data-conn": ["EPSV", "RETR d/f"],
    "abor-mid-stor": ["EPSV", "@data", "STOR new", "@dsend 0123", "ABOR"],
    "dirs": ["MKD x", "CWD x", "CDUP", "RMD x", "DELE g", "MLST d"],
    "retr-then-quit": ["EPSV", "@data", "RETR d/f", "QUIT"],
    "stor-early-data": ["EPSV", "@data!", "@dsend 0123456789!", "@dclose!", "STOR new"],
    # a data peer that stays connected but does not read (with the lock-step window the server's first block stays unsent)
    "retr-noread": ["EPSV", "@data", "@dstop", "RETR d/f"],
    "list-noread": ["PASV", "@data", "@dstop", "LIST"],
    # the session changes user in the middle
    "relogin": ["USER bob", "PASS pw", "PWD", "USER anonymous", "PWD"],
    # ... while a transfer of the old login is still under way (upload in progress / waiting for its data connection /
    # blocked by a data peer that does not read)
    "stor-then-relogin": ["EPSV", "@data", "STOR new", "@dsend 0123", "USER anonymous", "@dsend 4567", "@dclose", "PWD"],
    "nodata-then-relogin": ["EPSV", "RETR d/f", "USER anonymous", "PWD"],
    "retr-noread-then-relogin": ["EPSV", "@data", "@dstop", "RETR d/f", "USER bob", "PASS pw"],
}

TRANSFER_SCRIPTS = ["list", "mlsd", "retr", "stor", "appe", "rest-retr", "rest-stor"]
