"""C05 Command dispatcher conforms to a sequential FTP session model.

E2: explicit-state BFS over command histories; the real server is the
transition function, every step is compared with vf.model.SessionModel; states
are de-duplicated on (model state, white-box connection digest); plus
non-de-duplicated sweeps.  DESIGN.md §5 C05.
"""
import json

from vf import report, model as M
from vf.conform import Conf, run_history
from vf.simloop import Chooser

PID = "C05"
TREE = {"d": {"f": b"0123456789"}, "g": b"xyz"}
USERS = [M.UserSpec(None), M.UserSpec("bob", "pw", home="/d", maxconn=1)]     # bob may have one connection: this one

ALPHABET = [
    "USER anonymous", "USER bob", "PASS pw", "PASS bad", "PWD", "SYST", "TYPE I", "TYPE A", "TYPE X", "TYPE",
    "PBSZ 0", "PROT P", "PROT C",
    "CWD d", "CWD ..", "CWD g", "CWD nope", "CWD /d/../d", "CDUP", "CWD //d", "CWD //", "MLST //d/../g", "DELE ///g",
    "MKD m", "MKD d", "MKD g/x", "MKD m/n",
    "RMD d", "RMD m", "RMD nope", "RMD g",
    "DELE g", "DELE d", "DELE nope", "DELE d/f",
    "RNFR g", "RNFR nope", "RNFR d", "RNTO h", "RNTO d", "RNTO nope/x", "RNTO g/x", "RNTO d/sub", "RNTO /m/h",
    "MLST d", "MLST g", "MLST nope", "MLST",
    "PASV", "EPSV", "EPSV foo", "@data",
    "LIST", "LIST d", "LIST g", "LIST nope", "MLSD", "MLSD d", "MLSD nope",
    "RETR g", "RETR d/f", "RETR d", "RETR nope",
    "STOR n", "STOR g", "STOR d", "STOR nope/x", "APPE g", "APPE n",
    "REST 2", "REST 0", "REST", "REST x", "REST 3abc", "REST ²", "REST ٣", "REST -1", "REST  2", "REST 20",
    "REST " + "9" * 4301,
    # verbs spelled with non-ascii letters that str.lower() / str.upper() fold onto ascii ones: unsupported verbs
    "M\u212aD n", "m\u212ad n", "\u017fY\u017fT", "\u0131\u0307",
    "ABOR", "FOO", "", "NOOP x", "QUIT",
]
LOGINS = ["USER anonymous", "USER bob", "PASS pw", "PASS bad", "PWD", "USER nobody"]
REDUCED = ["PWD", "CWD d", "CDUP", "MKD m", "RNFR g", "RNTO h", "PASV", "@data", "LIST", "RETR g", "RETR d/f",
           "STOR n", "APPE g", "REST 2", "REST x", "FOO", "USER bob", "PASS pw", "DELE g"]


def conf_for(backend):
    if backend == "memory/wait-for-ever":
        # wait_future_timeout=None: a transfer waits for its data connection without limit
        return Conf(USERS, TREE, backend="memory", server_kwargs={"wait_future_timeout": None})
    return Conf(USERS, TREE, backend=backend)


def classify_sig(p):
    line = p.get("line", "")
    verb = line.partition(" ")[0].upper()
    sig = {"kind": p["kind"], "verb": verb}
    if verb == "REST":
        arg = line.partition(" ")[2]
        sig["rest_arg_ascii"] = arg.isascii()
    if verb == "EPSV":
        sig["arg"] = bool(line.partition(" ")[2])
    if p["kind"] == "replies":
        sig["got"] = "-".join(p["got"])
        sig["expected"] = "-".join(p["expected"])
    return sig


def expand(item):
    hist, backend = item
    part = report.Partial()
    res = run_history(hist, conf_for(backend))
    part.evaluations += 1
    part.traces += 1
    part.transitions += len(hist)
    k = report.fp(res["key"])
    part.states.add(k)
    if len(hist) >= 2:
        part.nontrivial.add(k)
    part.outcomes[report.fp(res["obs"][-1:] if res["obs"] else [])] += 1
    if len(hist) == 3:
        part.sample({"backend": backend, "history": hist, "replies": res["obs"]}, limit=1)
    for p in res["problems"]:
        part.violation(classify_sig(p), {"problem": p, "backend": backend},
                       replay={"history": list(hist), "backend": backend})
    return part, k, res["closed"] or bool(res["problems"])


def bfs(backend, depth, cap):
    total = report.Partial()
    seen = set()
    frontier = [[]]
    for level in range(depth + 1):
        results = report.pmap(expand, [(h, backend) for h in frontier])
        nxt = []
        for h, (part, key, dead) in zip(frontier, results):
            total.merge(part)
            if key in seen or dead:
                continue
            seen.add(key)
            if level < depth:
                for a in ALPHABET:
                    nxt.append(h + [a])
        total.counters[f"bfs_{backend}_level{level}"] = len(frontier)
        if len(nxt) > cap:
            total.caps.append({"bfs": backend, "level": level + 1, "frontier": len(nxt), "cap": cap})
            nxt = nxt[:cap]
        frontier = nxt
    total.counters[f"bfs_{backend}_distinct_states"] = len(seen)
    return total


def sweep(backend, prefix, alphabet, length):
    """non-de-duplicated: every history prefix + alphabet^length"""
    import itertools
    items = [(list(prefix) + list(t), backend) for t in itertools.product(alphabet, repeat=length)]
    total = report.Partial()
    for part, key, dead in report.pmap(expand, items):
        total.merge(part)
    total.counters[f"sweep_{backend}_{len(prefix)}+{length}"] = len(items)
    return total


TRANSFERS = ["RETR g", "RETR d/f", "STOR n", "STOR g", "APPE g", "APPE n", "LIST", "MLSD d"]


def sweep_hist(backend, hists, tag):
    total = report.Partial()
    for part, key, dead in report.pmap(expand, [(h, backend) for h in hists]):
        total.merge(part)
    total.counters[f"sweep_{backend}_{tag}"] = len(hists)
    return total


def attribute_name_histories():
    """verbs spelled like attributes of the server object (methods that are not FTP commands, private helpers,
    properties) are unsupported verbs like any other: 502, and the session continues"""
    import aioftp
    names = sorted({n for n in dir(aioftp.Server)} | {"connection", "user", "stream", "self", "cls", "lambda", "await"})
    supported = set(M.KNOWN_VERBS)
    # (what the server's own table holds beyond the 25 verbs is sent as well: a verb the model does not know is
    # unsupported)
    names = sorted(set(names) | set(aioftp.Server([aioftp.User()]).commands_mapping))
    out = []
    for n in names:
        if n.lower() in supported:
            continue
        out.append(["USER anonymous", n.upper(), "PWD"])
        out.append(["USER anonymous", n + " x", "PWD"])
        out.append([n, "USER anonymous", "PWD"])
    return out


def rest_scope_histories():
    """REST n, then any one command (refused transfers, transfers without data connection, anything), then a transfer
    with a data connection: the offset may only ever apply to the command right after REST"""
    out = []
    for a in ALPHABET:
        for t in TRANSFERS:
            out.append(["USER anonymous", "EPSV", "@data", "REST 2", a, "@data", t])
            out.append(["USER anonymous", "EPSV", "REST 2", a, "@data", t])
    return out


def rename_histories():
    """use a nested path, rename (or remove and re-create) one of its ancestors or itself, use the old and the new names"""
    touch = ["MLST d/f", "CWD d", "RNFR d/f", "DELE nope", "MLST d", "T:RETR d/f", "T:LIST d", "T:STOR d/n"]
    after = ["MLST d/f", "MLST e/f", "CWD d", "CWD e", "DELE d/f", "DELE e/f", "T:RETR d/f", "T:RETR e/f", "T:LIST e",
             "T:LIST d", "MKD d", "RMD d", "T:STOR d/x", "MLST d", "MLST e", "PWD"]
    out = []
    for t in touch:
        for a in after:
            for change in (["RNFR d", "RNTO e"], ["RNFR d/f", "RNTO d/g"], ["DELE d/f", "RMD d", "MKD d"], ["RNFR g", "RNTO d/g2"]):
                h = ["USER anonymous", "EPSV"]
                for sym in [t] + change + [a]:
                    if sym.startswith("T:"):
                        h += ["@data", sym[2:]]
                    else:
                        h.append(sym)
                out.append(h)
    return out


def cdup_histories():
    """the working directory is two levels down; its parent (or itself) is renamed away, removed or re-made by absolute
    name; then CDUP - which is CWD to the parent with everything CWD checks - and the session's view of where it is"""
    out = []
    changes = [[], ["RNFR /d", "RNTO /e"], ["RNFR /d/s", "RNTO /s2"], ["RNFR /d/s", "RNTO /d/t"], ["RNFR /d", "RNTO /e", "MKD /d"],
               ["RMD /d/s"], ["RNFR /d", "RNTO /e", "RNFR /g", "RNTO /d"], ["DELE /d/f"]]
    for change in changes:
        for tail in (["CDUP", "PWD", "CDUP", "PWD"], ["CDUP", "MLST", "PWD"], ["CDUP", "MKD here", "PWD"], ["PWD", "CDUP", "CWD s", "PWD"]):
            out.append(["USER anonymous", "EPSV", "MKD d/s", "CWD d/s"] + change + tail)
    return out


def late_histories():
    """a transfer verb sent before its data connection exists, any harmless command in between, then the connection"""
    from vf.conform import LATE_MID
    out = []
    for pre in ([], ["CWD d"], ["REST 2"], ["CWD d", "REST 2"]):
        for v in ["RETR g", "RETR f", "RETR d/f", "STOR n", "STOR f", "APPE g", "APPE f", "LIST", "LIST d", "MLSD", "RETR /g"]:
            for m in LATE_MID:
                out.append(["USER anonymous", "EPSV"] + pre + [f"LATE:{v}|{m}", "PWD", "@data", "RETR g"])
    return out


TIMEOUT_PREFIXES = [["USER anonymous"], ["USER anonymous", "EPSV", "@data"], ["USER anonymous", "CWD d"],
                    ["USER anonymous", "RNFR g"], ["USER anonymous", "PASV", "@data", "REST 2"]]


def timeout_case(item):
    """Server(path_timeout=...) with a backend whose calls take longer: the command that hits the timeout still gets
    exactly one final reply, the session goes on, and once the backend is quick again the session works normally"""
    from vf import backends
    from vf.rig import Rig
    prefix, line = item
    part = report.Partial()
    conf = conf_for("memory")
    spy = backends.SpyControl()
    rig = Rig(tree=TREE, users=conf.aio_users, spy=spy,
              server_kwargs={"block_size": 4, "wait_future_timeout": 1, "path_timeout": 0.05})
    problems = []
    try:
        s = rig.sessions[0]
        rig.ev(0, "@connect")
        for e in prefix:
            rig.ev(0, e)
        spy.delay = 0.125                # every backend call now outlasts path_timeout
        r = rig.ev(0, line) or []
        if line.split(" ")[0] in ("STOR", "APPE") and r and r[-1][0][:1] == "1" and s.data is not None:
            rig.ev(0, "@dsend NEWDATA")
            r = r + (rig.ev(0, "@dclose") or [])
        rig.world.settle()
        rig.collect()
        r = r + [x for ev, rr in s.transcript[-1:] if ev == "<late>" for x in rr]
        codes = [c for c, _ in r]
        finals = [c for c in codes if not c.startswith("1")]
        if line == "@data":
            pass
        elif len(finals) != 1:
            problems.append({"kind": "not-exactly-one-final-reply-when-the-backend-times-out", "line": line, "got": codes})
        if s.closed() and line != "QUIT" and "421" not in codes:
            problems.append({"kind": "session-ended", "line": line, "codes": codes})
        spy.delay = 0.0
        if not s.closed():
            r2 = rig.ev(0, "PWD") or []
            if [c for c, _ in r2] not in (["257"], ["503"]):
                problems.append({"kind": "followup-after-timeout", "line": line, "got": [c for c, _ in r2]})
        part.evaluations += 1
        part.traces += 1
        part.transitions += len(prefix) + 2
        k = report.fp(["timeout", prefix, line])
        part.states.add(k)
        if spy.failed or "451" in codes:
            part.nontrivial.add(k)
        part.outcomes[report.fp(["timeout", codes])] += 1
        for p in problems[:1]:
            part.violation({"kind": p["kind"], "verb": line.partition(" ")[0].upper(), "path_timeout": True},
                           {"problem": p, "prefix": prefix}, replay={"timeout": [prefix, line]})
    finally:
        rig.close()
    return part


def ipv6_case(item):
    """control connection over IPv6: PASV cannot be served there (503) - and, like every refused command, changes
    nothing: no passive listener is left behind, a following transfer command is out of sequence; EPSV then works"""
    pre, = item
    from vf.rig import Rig
    part = report.Partial()
    problems = []
    rig = Rig(tree=TREE, host="::1", server_kwargs={"wait_future_timeout": 1})
    try:
        w = rig.world
        rig.ev(0, "@connect")
        rig.ev(0, "USER anonymous")
        for e in pre:
            rig.ev(0, e)
        had = bool(rig.sessions[0].pasv_port)
        before = len([l for l in w.net.all_listeners if not l.closed])
        r = rig.ev(0, "PASV")
        codes = [c for c, _ in (r or [])]
        if codes != ["503"]:
            problems.append({"kind": "replies", "line": "PASV", "got": codes, "expected": ["503"]})
        after = len([l for l in w.net.all_listeners if not l.closed])
        if after > before:
            problems.append({"kind": "refused-command-changed-state", "line": "PASV", "what": "a passive listener was opened"})
        if not had:
            r = rig.ev(0, "LIST")
            codes = [c for c, _ in (r or [])]
            if codes != ["503"]:
                problems.append({"kind": "refused-command-changed-state", "line": "LIST after the refused PASV", "got": codes,
                                 "expected": ["503"]})
        r = rig.ev(0, "EPSV")
        rig.ev(0, "@data")
        r = rig.ev(0, "LIST")
        codes = [c for c, _ in (r or [])]
        if codes != ["150", "226"]:
            problems.append({"kind": "replies", "line": "LIST after EPSV", "got": codes, "expected": ["150", "226"]})
        part.evaluations += 1
        part.traces += 1
        part.transitions += w.net.n_events
        k = report.fp(["ipv6", pre])
        part.states.add(k)
        part.nontrivial.add(k)
        for p_ in problems[:1]:
            part.violation({"kind": p_["kind"], "verb": "PASV", "ipv6": True}, {"problem": p_, "history": list(pre)},
                           replay={"ipv6": [list(pre)]})
    finally:
        rig.close()
    return part


ONDISK_NAMES = [b"bad\xff.txt", b"latin\xe9.txt", b"\xc3", b"ok-\xe2\x82", b"caf\xc3\xa9.txt"]      # the last one is valid UTF-8


def ondisk_case(item):
    """a served directory holds entries made outside FTP whose names are not text in the server's encoding (bytes that
    are no UTF-8; on an ascii / latin-1 server also perfectly good Unicode names): whatever the listing shows of them,
    every command gets its one final reply and the session goes on"""
    backend, encoding, verb = item
    import os
    from vf.rig import Rig
    part = report.Partial()
    problems = []
    rig = Rig(tree={"d": {"plain": b"x"}, "keep": b"k"}, backend=backend, server_kwargs={"wait_future_timeout": 1, "encoding": encoding})
    try:
        w = rig.world
        base = os.fsencode(str(rig.base))
        try:
            for name in ONDISK_NAMES:
                with open(os.path.join(base, b"d", name), "wb") as f:
                    f.write(b"content")
            os.mkdir(os.path.join(base, b"d", b"dir\xfe"))
        except OSError:
            # (a file system that refuses such names: the case cannot be set up here)
            return part
        s = rig.sessions[0]
        rig.ev(0, "@connect")
        rig.ev(0, "USER anonymous")
        for line in (verb + " d", "CWD d", verb):
            if line.split(" ")[0] in ("LIST", "MLSD"):
                rig.ev(0, "EPSV")
                rig.ev(0, "@data")
            r = rig.ev(0, line) or []
            codes = [c for c, _ in r]
            finals = [c for c in codes if c[:1] != "1"]
            marks = [c for c in codes if c[:1] == "1"]
            if s.closed():
                problems.append({"kind": "session-ended-without-announcement", "line": line, "got": codes})
                break
            if len(finals) != 1 or (line.split(" ")[0] in ("LIST", "MLSD") and finals[0][:1] == "2" and len(marks) != 1):
                problems.append({"kind": "replies", "line": line, "got": codes, "expected": "one mark, one completion reply"})
                break
            if marks and s.data is not None and not s.data.eof:
                problems.append({"kind": "data-connection-left-open", "line": line, "got": codes})
                break
            if line.split(" ")[0] in ("LIST", "MLSD") and finals[0][:1] == "2" and b"plain" not in bytes(s.data.received if s.data else b""):
                problems.append({"kind": "listing-lost-its-ordinary-entries", "line": line, "data": bytes(s.data.received if s.data else b"")[:200].decode("latin-1")})
                break
        if not problems:
            r = rig.ev(0, "PWD") or []
            if [c for c, _ in r] != ["257"]:
                problems.append({"kind": "replies", "line": "PWD afterwards", "got": [c for c, _ in r], "expected": ["257"]})
        part.evaluations += 1
        part.traces += 1
        part.transitions += w.net.n_events
        k = report.fp(["ondisk", item])
        part.states.add(k)
        part.nontrivial.add(k)
        for p_ in problems[:1]:
            part.violation({"kind": p_["kind"], "verb": verb, "ondisk_names": True, "encoding": encoding},
                           {"problem": p_, "case": list(item)}, replay={"ondisk": list(item)})
    finally:
        rig.close()
    return part


def tls_case(item):
    """a server configured with an ssl context: every listener it opens - the passive ones too, with and without a
    restricted port pool - is given that context (SimNet carries no TLS; what is compared is the listener's setting)"""
    pool, verb = item
    from vf.rig import Rig
    part = report.Partial()
    problems = []
    marker = object()
    skw = {"ssl": marker, "wait_future_timeout": 1}
    if pool:
        skw["data_ports"] = list(pool)
    rig = Rig(tree=TREE, server_kwargs=skw)
    try:
        w = rig.world
        rig.ev(0, "@connect")
        rig.ev(0, "USER anonymous")
        r = rig.ev(0, verb)
        codes = [c for c, _ in (r or [])]
        mine = [l for l in w.net.all_listeners if not l.closed and l.owner == "server"]
        if codes[:1] not in (["227"], ["229"]) or len(mine) != 2:
            problems.append({"kind": "replies", "line": verb, "got": codes, "expected": ["227|229"]})
        for l in mine:
            if getattr(l, "ssl", None) is not marker:
                problems.append({"kind": "listener-without-the-configured-ssl-context", "port": l.port, "pool": list(pool)})
        part.evaluations += 1
        part.traces += 1
        part.transitions += w.net.n_events
        k = report.fp(["tls", list(pool), verb])
        part.states.add(k)
        part.nontrivial.add(k)
        for p_ in problems[:1]:
            part.violation({"kind": p_["kind"], "verb": verb, "tls": True}, {"problem": p_}, replay={"tls": [list(pool), verb]})
    finally:
        rig.close()
    return part


def run(tier, seed, t0):
    parts = []
    if tier == "quick":
        parts.append(bfs("memory", 4, 40000))
        parts.append(bfs("pathio", 3, 20000))
        parts.append(bfs("async", 2, 8000))
        parts.append(sweep("memory", ["USER anonymous", "PASV", "@data"], REDUCED, 2))
        parts.append(sweep("memory", ["USER anonymous", "EPSV", "@data", "REST 2"], ALPHABET, 1))
        parts.append(sweep("memory", ["USER anonymous", "EPSV", "@data", "REST 2"], REDUCED, 3))
        parts.append(sweep_hist("memory", rest_scope_histories(), "rest-scope"))
        parts.append(sweep("memory", [], LOGINS, 4))       # every login history of length 4 (a limited user re-logging in)
        parts.append(sweep_hist("memory", late_histories(), "late-data"))
        parts.append(sweep_hist("memory/wait-for-ever", late_histories()[::3], "late-data"))
        parts.append(sweep_hist("memory", rename_histories(), "rename-ancestor"))
        parts.append(sweep_hist("memory", cdup_histories(), "cdup"))
        parts.append(sweep_hist("pathio", cdup_histories(), "cdup"))
    else:
        parts.append(sweep_hist("memory/wait-for-ever", late_histories(), "late-data"))
        parts.append(sweep_hist("memory", rename_histories(), "rename-ancestor"))
        parts.append(sweep_hist("memory", cdup_histories(), "cdup"))
        parts.append(sweep_hist("pathio", cdup_histories(), "cdup"))
        parts.append(sweep_hist("pathio", rename_histories(), "rename-ancestor"))
        parts.append(sweep_hist("memory", late_histories(), "late-data"))
        parts.append(sweep_hist("pathio", late_histories(), "late-data"))
        parts.append(sweep("memory", [], LOGINS, 5))
        parts.append(sweep_hist("memory", rest_scope_histories(), "rest-scope"))
        parts.append(sweep_hist("pathio", rest_scope_histories(), "rest-scope"))
        parts.append(bfs("memory", 6, 600000))
        parts.append(bfs("pathio", 4, 100000))
        parts.append(bfs("async", 3, 40000))
        parts.append(sweep("memory", ["USER anonymous", "PASV", "@data"], REDUCED, 3))
        parts.append(sweep("pathio", ["USER anonymous", "PASV", "@data"], REDUCED, 2))
        parts.append(sweep("memory", ["USER anonymous", "EPSV", "@data", "REST 2"], ALPHABET, 2))
    parts.append(sweep_hist("memory", attribute_name_histories(), "attribute-names"))
    parts += report.pmap(tls_case, [(pool, verb) for pool in ((), (30001,), (30001, 30002)) for verb in ("PASV", "EPSV")])
    parts += report.pmap(ondisk_case, [(b, enc, v) for b in ("pathio", "async") for enc in ("utf-8", "latin-1", "ascii")
                                       for v in ("LIST", "MLSD", "MLST")])
    parts += report.pmap(ipv6_case, [(pre,) for pre in ([], ["PWD"], ["EPSV"], ["EPSV", "@data"], ["REST 2"])])
    parts += report.pmap(timeout_case, [(pre, line) for pre in TIMEOUT_PREFIXES for line in ALPHABET])
    part = report.merge_all(parts)
    bounds = {"path_timeout": "every command of the alphabet from %d prefixes on a server with path_timeout=0.05 whose "
                              "backend calls take 0.125 s" % len(TIMEOUT_PREFIXES),
              "tls_configuration": "ssl context given to the server: control and passive listeners (no pool / pools of 1 and 2 ports) all carry it",
              "ipv6": "control connection over ::1: PASV (503) from 5 pre-states must leave no listener and no passive state; EPSV works",
              "attribute_names": "every attribute name of aioftp.Server that is not an FTP command, sent as a verb (before / after login, with an argument)",
              "alphabet_size": len(ALPHABET), "reduced_alphabet": len(REDUCED), "tier_depths": "quick: memory 4, pathio 3, async 2; "
              "thorough: memory 6, pathio 4, async 3", "tree": "d/, d/f, g", "users": ["anonymous", "bob(password, home /d)"]}
    return report.finish(
        PID, tier, seed, "model_checking", part, t0,
        rule="BFS over command histories, each rebuilt on a fresh real server inside SimLoop and compared step by step "
             "with the sequential reference model (reply count/order/code, PWD and MLST text, data, listing names, whole "
             "tree, session end); de-duplicated on (model state, white-box digest); plus non-de-duplicated sweeps. "
             "Non-trivial = history of length >= 2; distinct by state key.",
        bounds=bounds,
        assumptions=["environment model SimLoop/SimNet", "reference model vf/model.py (looseness documented in DESIGN.md §4.1)"])


def replay(path):
    data = json.loads(open(path).read())
    rp = data["replay"]
    if "tls" in rp:
        part = tls_case((tuple(rp["tls"][0]), rp["tls"][1]))
        print(json.dumps([v["detail"] for v in part.violations], indent=1, default=repr))
        return 1 if part.violations else 0
    if "ondisk" in rp:
        part = ondisk_case(tuple(rp["ondisk"]))
        print(json.dumps([v["detail"] for v in part.violations], indent=1, default=repr))
        return 1 if part.violations else 0
    if "ipv6" in rp:
        part = ipv6_case((rp["ipv6"][0],))
        print(json.dumps([v["detail"] for v in part.violations], indent=1, default=repr))
        return 1 if part.violations else 0
    if "timeout" in rp:
        part = timeout_case(tuple(rp["timeout"]))
        print(json.dumps([v["detail"] for v in part.violations], indent=1, default=repr))
        return 1 if part.violations else 0
    res = run_history(rp["history"], conf_for(rp["backend"]))
    print(json.dumps({"history": rp["history"], "replies": res["obs"], "problems": res["problems"]}, indent=1, default=repr))
    return 1 if res["problems"] else 0
