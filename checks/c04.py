"""C04 Read/write permissions follow the nearest-ancestor rule on the resolved path.

E3: User.get_permissions on every table of <= 3 entries over 5 paths x 4
(readable, writable) combinations (ordered, with duplicates) x every query path
of depth <= 4.  E2 (wire): nesting-pattern tables x every permission-checked
verb x target x alias spelling x cwd, against the reference model.
DESIGN.md §5 C04.
"""
import itertools
import json
import posixpath

from vf import report, model as M
from vf.conform import Conf, step as conf_step

PID = "C04"

# -- function level ----------------------------------------------------------
PPATHS = ["/", "/a", "/a/b", "/a/b/c", "/c", "/ab"]      # "/ab": a sibling whose name extends "/a" textually
PERMS = [(True, True), (True, False), (False, True), (False, False)]
ENTRIES = [(p, r, w) for p in PPATHS for r, w in PERMS]


def queries(depth):
    out = ["/"]
    for d in range(1, depth + 1):
        for t in itertools.product(("a", "b", "c", "ab"), repeat=d):
            out.append("/" + "/".join(t))
    return out


def oracle(table, q):
    """set of acceptable (readable, writable): longest-prefix match, default allow; disagreeing duplicates at the
    nearest depth: either"""
    best, depth = set(), -1
    for p, r, w in table:
        if q == p or p == "/" or q.startswith(p + "/"):
            d = 0 if p == "/" else p.count("/")
            if d > depth:
                best, depth = {(r, w)}, d
            elif d == depth:
                best.add((r, w))
    return best or {(True, True)}


def call(coro):
    try:
        coro.send(None)
    except StopIteration as e:
        return e.value
    raise RuntimeError("get_permissions suspended")


def func_work(item):
    tables, qs = item
    import aioftp
    part = report.Partial()
    for n_table, table in enumerate(tables):
        mk = lambda e: aioftp.Permission(e[0], readable=e[1], writable=e[2])     # noqa
        built = [("constructor", aioftp.User(permissions=[mk(e) for e in table]))]
        if len(table) >= 2 and n_table % 7 == 0:
            # the permission list is a public attribute: the same table, grown in place on an existing user (an entry
            # granted or locked while the server runs) - what counts is the table as it is when the request comes
            # (requests are served in between: what counts is the table as it is when the next request comes)
            u2 = aioftp.User(permissions=[mk(table[0])])
            for e in table[1:]:
                call(u2.get_permissions("/a/b"))
                u2.permissions.append(mk(e))
            built.append(("appended", u2))
            u3 = aioftp.User(permissions=[mk(table[-1])])
            for e in reversed(table[:-1]):
                call(u3.get_permissions("/"))
                u3.permissions.insert(0, mk(e))
            built.append(("inserted", u3))
            u4 = aioftp.User(permissions=[mk(("/", False, False))])
            call(u4.get_permissions("/c"))
            u4.permissions = [mk(e) for e in table]
            built.append(("reassigned", u4))
            u5 = aioftp.User(permissions=[mk(e) for e in table] + [mk(("/a/b/c", False, False))])
            call(u5.get_permissions("/a/b/c"))
            del u5.permissions[-1]
            built.append(("entry-removed", u5))
        for how, user in built:
            for q in qs:
                perm = call(user.get_permissions(q))
                got = (perm.readable, perm.writable)
                part.evaluations += 1
                if got not in oracle(table, q):
                    part.violation({"kind": "nearest-ancestor", "entries": len(table), "table_built_by": how},
                                   {"table": table, "query": q, "got": got, "expected": sorted(oracle(table, q))},
                                   replay={"func": True, "table": [list(e) for e in table], "query": q, "how": how})
        if len(table) >= 2:
            part.nontrivial.add(report.fp(table))
        part.states.add(report.fp(table))
    part.transitions = part.evaluations
    if tables:
        part.sample({"table": tables[-1], "queries": len(qs)}, limit=1)
    return part


def func_items(tier):
    n = 3
    tables = [()]
    for k in range(1, n + 1):
        tables += list(itertools.product(ENTRIES, repeat=k))
    qs = queries(4 if tier != "quick" else 3) + ["/a/b/c/d"]
    chunk = 400
    return [(tables[i:i + chunk], qs) for i in range(0, len(tables), chunk)]


# -- wire level ----------------------------------------------------------------
TREE = {"pub": {"f": b"pubf", "sub": {"g": b"pg"}, "v1..v2": b"dotted"},
        "priv": {"f": b"privf", "sub": {"g": b"sg"}, "a..b": {"h": b"dd"}}, "top": b"t",
        "public": {"f": b"publicf"}, "pub2": b"p2",          # names that merely start with an entry's name
        "priv\\f": b"backslash-name"}                          # one component whose name contains a backslash
WTABLES = {
    "none": [],
    "root-ro": [("/", True, False)],
    "root-none+pub-rw": [("/", False, False), ("/pub", True, True)],
    "priv-none+privsub-rw": [("/priv", False, False), ("/priv/sub", True, True)],
    "three-levels": [("/", True, True), ("/pub", True, False), ("/pub/sub", False, True)],
    "unordered-dup": [("/pub/sub", True, True), ("/", False, True), ("/pub", False, False), ("/pub", False, False)],
    "sibling": [("/pub", False, False)],
}
TARGETS = ["/pub", "/pub/f", "/pub/sub", "/pub/sub/g", "/priv", "/priv/f", "/priv/sub", "/priv/sub/g", "/top", "/new",
           "/pub/new", "/priv/new", "/priv/sub/new", "/", "/public", "/public/f", "/public/new", "/pub2", "/pubnew",
           "/priv\\f", "/priv\\new",
           # names with two dots *inside* them are names, not steps upwards
           "/pub/v1..v2", "/priv/a..b", "/priv/a..b/h", "/priv/new..", "/pub/..new"]
VERBS = ["CWD", "CDUP", "LIST", "MLSD", "MLST", "RETR", "MKD", "RMD", "DELE", "RNFR", "RNTO", "STOR", "APPE",
         # what looks like an ls switch is part of the name (there is no switch in FTP): the location is <cwd>/-a <path>
         "LIST -a", "LIST -la"]
CWDS = ["/", "/pub", "/priv/sub"]


def aliases(t, cwd):
    rel = posixpath.relpath(t, cwd)
    tail = t[1:]
    out = [t, rel, "/pub/../" + tail, "/priv/sub/../../" + tail, t.replace("/", "//") if t != "/" else "//",
           (t + "/") if t != "/" else "/./", "/./" + tail, "./" + rel]
    seen, res = set(), []
    for a in out:
        if a not in seen:
            seen.add(a)
            res.append(a)
    return res


def wire_case(item):
    tname, verb, target, cwd = item
    part = report.Partial()
    users = [M.UserSpec(None, perms=WTABLES[tname])]
    conf = Conf(users, TREE)
    for alias in aliases(target, cwd):
        rig = conf.new_rig()
        model = conf.new_model()
        try:
            rig.ev(0, "@connect")
            hist = ["USER anonymous", "EPSV"]
            if cwd != "/":
                hist.append("CWD " + cwd)
            if verb.split(" ")[0] in ("LIST", "MLSD", "RETR", "STOR", "APPE"):
                hist.append("@data")
            if verb == "RNTO":
                # a source that is renameable under this table, if any
                src = next((s for s in ("/top", "/pub/f", "/priv/sub/g", "/priv/f") if users[0].perm(s)[1]), None)
                if src is None:
                    continue
                hist.append("RNFR " + src)
            last = verb if verb == "CDUP" else f"{verb} {alias}"
            hist.append(last)
            problems = []
            ok_prefix = True
            for k, line in enumerate(hist):
                pr, obs = conf_step(rig, model, line, conf)
                if pr:
                    for p in pr:
                        p["history"] = hist[:k + 1]
                    problems += pr
                    break
                if k < len(hist) - 1 and line.startswith("CWD") and obs["codes"] != ["250"]:
                    ok_prefix = False      # this cwd is not reachable under this table
                    break
            if not ok_prefix:
                continue
            part.evaluations += 1
            part.traces += 1
            part.transitions += len(hist)
            part.states.add(report.fp([tname, verb, target, cwd, alias]))
            if alias != target:
                part.nontrivial.add(report.fp([tname, verb, target, cwd, alias]))
            part.outcomes[report.fp([verb, obs["codes"]])] += 1
            if alias != target:
                part.sample({"table": tname, "history": hist, "codes": obs["codes"]}, limit=1)
            for p in problems:
                part.violation({"kind": p["kind"], "verb": verb, "table": tname},
                               {"problem": p, "target": target, "alias": alias, "cwd": cwd},
                               replay={"wire": [tname, verb, target, cwd]})
        finally:
            rig.close()
        if verb == "CDUP":
            break
    return part


LATE_TABLES = {
    "privf-unreadable": [("/priv/f", False, True)],
    "privf-readonly": [("/priv/f", True, False)],
    "pub-ro": [("/pub", True, False)],
    "priv-none-but-listed": [("/priv/f", False, False), ("/priv/sub", False, False)],
}


def late_case(item):
    """the transfer verb arrives before the data connection; the session changes its working directory while the server
    waits; the transfer must be authorised *and carried out* on the location addressed when the verb arrived"""
    tname, verb, cwd1, cwd2, arg = item
    from vf.conform import step_late
    part = report.Partial()
    users = [M.UserSpec(None, perms=LATE_TABLES[tname])]
    conf = Conf(users, TREE)
    rig = conf.new_rig()
    model = conf.new_model()
    try:
        rig.ev(0, "@connect")
        hist = ["USER anonymous", "EPSV", "CWD " + cwd1]
        problems = []
        for line in hist:
            pr, obs = conf_step(rig, model, line, conf)
            problems += pr
        if not problems:
            pr, obs = step_late(rig, model, f"{verb} {arg}", "CWD " + cwd2, conf)
            problems += pr
        if not problems:
            pr, obs = conf_step(rig, model, "PWD", conf)
            problems += pr
        part.evaluations += 1
        part.traces += 1
        part.transitions += len(hist) + 3
        k = report.fp(["late", tname, verb, cwd1, cwd2, arg])
        part.states.add(k)
        part.nontrivial.add(k)
        part.sample({"table": tname, "history": hist + [f"{verb} {arg}  (no data connection yet)", "CWD " + cwd2, "@data"]}, limit=1)
        for p in problems[:1]:
            part.violation({"kind": p["kind"], "verb": verb, "table": tname, "late_data": True},
                           {"problem": p, "cwd1": cwd1, "cwd2": cwd2, "arg": arg}, replay={"late": list(item)})
    finally:
        rig.close()
    return part


def late_items():
    items = []
    for tname in LATE_TABLES:
        for verb in ("RETR", "STOR", "APPE", "LIST", "MLSD"):
            for cwd1, cwd2 in (("/pub", "/priv"), ("/priv", "/pub"), ("/pub/sub", "/priv/sub"), ("/priv/sub", "/"),
                               ("/", "/priv")):
                for arg in (("f", "g", "../f", "new") if verb in ("RETR", "STOR", "APPE") else ("", ".", "sub")):
                    items.append((tname, verb, cwd1, cwd2, arg))
    return items


RELOGIN_PAIRS = {
    "rw-then-ro": ([], [("/pub", True, False)]),
    "ro-then-rw": ([("/pub", True, False)], []),
    "hidden-then-open": ([("/priv", False, False)], [("/priv", True, True)]),
    "open-then-hidden": ([], [("/priv", False, False), ("/pub/sub", False, True)]),
}
RELOGIN_TOUCH = ["MLST {p}", "CWD {d}", "RNFR {p}", "DELE /nope", "LIST {d}", "RETR {p}", "STOR {d}/t", "MKD {d}/m"]
RELOGIN_VERBS = ["DELE", "RETR", "STOR", "APPE", "MKD", "RMD", "RNFR", "MLST", "LIST", "MLSD", "CWD"]


def relogin_case(item):
    """one control connection: user A touches a path, then USER (and PASS where needed) as user B whose table differs
    on that path; B's requests must be authorised by B's table only"""
    pname, first, touch, verb = item
    part = report.Partial()
    ta, tb = RELOGIN_PAIRS[pname]
    ua = M.UserSpec("alice", "pw", perms=ta)
    ub = M.UserSpec("guest", None, perms=tb)
    a, b = (ua, ub) if first == "alice" else (ub, ua)
    conf = Conf([ua, ub], TREE)
    for d, p in (("/pub", "/pub/f"), ("/priv", "/priv/f"), ("/pub/sub", "/pub/sub/g")):
        for alias in (p, "/pub/../" + p[1:], p.replace("/", "//")):
            rig = conf.new_rig()
            model = conf.new_model()
            try:
                rig.ev(0, "@connect")
                hist = ["USER " + a.login] + (["PASS pw"] if a.password else []) + ["EPSV", "@data",
                                                                                  touch.format(p=p, d=d)]
                hist += ["USER " + b.login] + (["PASS pw"] if b.password else []) + ["EPSV", "@data"]
                target = alias if verb not in ("LIST", "MLSD", "CWD", "MKD", "RMD") else (d if verb != "MKD" else d + "/n")
                hist += [f"{verb} {target}", "PWD"]
                problems = []
                for k, line in enumerate(hist):
                    pr, obs = conf_step(rig, model, line, conf)
                    for q in pr:
                        q["history"] = hist[:k + 1]
                    problems += pr
                    if pr:
                        break
                part.evaluations += 1
                part.traces += 1
                part.transitions += len(hist)
                k = report.fp(["relogin", pname, first, touch, verb, d, alias])
                part.states.add(k)
                part.nontrivial.add(k)
                for q in problems[:1]:
                    part.violation({"kind": q["kind"], "verb": verb, "relogin": pname, "first": first},
                                   {"problem": q}, replay={"relogin": list(item)})
            finally:
                rig.close()
    part.sample({"relogin": pname, "first_user": first, "touch": touch, "then": verb}, limit=1)
    return part


def relogin_items():
    return [(pn, first, t, v) for pn in RELOGIN_PAIRS for first in ("alice", "guest") for t in RELOGIN_TOUCH
            for v in RELOGIN_VERBS]


# -- a pipelined CWD while the path checks of the previous command are suspended in the backend ---------------------
PTREE = {"pub": {"f": b"pubf", "sub": {"g": b"pg"}, "e": {}},
         "priv": {"f": b"PRIVATE-F", "sub": {"g": b"PRIVATE-G"}, "secret": b"S", "e": {}}}
PTABLES = {
    "none": [],
    "priv-none": [("/priv", False, False)],
    "priv-ro": [("/priv", True, False)],
    "priv-writeonly": [("/priv", False, True)],
    "pub-ro": [("/pub", True, False)],
    "privf-none": [("/priv/f", False, False), ("/priv/secret", False, False)],
    "privsub-none-priv-ro": [("/priv", True, False), ("/priv/sub", False, False)],
}
PVERBS = {"RETR": "f", "MLST": "f", "LIST": "", "MLSD": "", "DELE": "f", "MKD": "n", "RMD": "e", "STOR": "f", "APPE": "f",
          "RNFR": "f", "CWD": "sub"}


def _perm(table, path):
    best, depth = (True, True), -1
    for p, r, w in table:
        if path == p or p == "/" or path.startswith(p.rstrip("/") + "/"):
            d = 0 if p == "/" else p.count("/")
            if d > depth:
                best, depth = (r, w), d
    return best


def run_pipelined_cwd(case, chooser):
    """commands are concurrent tasks in the server: whatever the order in which the backend answers, a request is
    carried out on the location it was authorised for - judged by its effects: the tree changes only where writing
    is allowed, and nothing is revealed about a location that is not readable"""
    from vf import backends
    tname, verb, cwd1, cwd2, mode = case["table"], case["verb"], case["cwd1"], case["cwd2"], case["mode"]
    table = PTABLES[tname]
    conf = Conf([M.UserSpec(None, perms=table)], PTREE)
    spy = backends.SpyControl()
    if mode == "jobs":
        spy.op_job = {"exists", "is_file", "is_dir", "stat"}
    else:
        spy.delay, spy.delay_ops = 0.125, {mode}
    rig = conf.new_rig(chooser=chooser, spy=spy)
    problems = []
    try:
        chooser.active = False
        w = rig.world
        spy.armed = False
        rig.ev(0, "@connect")
        rig.ev(0, "USER anonymous")
        arg = PVERBS[verb]
        transfer = verb in ("RETR", "LIST", "MLSD", "STOR", "APPE")
        if transfer:
            rig.ev(0, "EPSV")
            rig.ev(0, "@data")
        # enter cwd1 with the checks switched off (the start state is not what is examined)
        from vf.conform import connection_of
        import pathlib
        c = connection_of(rig, 0)
        if c is None:
            return {"problems": [{"kind": "session-lost-right-after-login", "sent": []}], "trace": report.fp(w.net.trace),
                    "events": w.net.n_events, "outcome": "no-session"}
        c.current_directory = pathlib.PurePosixPath(cwd1)
        before = rig.snapshot()
        spy.armed = True
        # white box: the virtual paths the permission lookups were made for
        lookups = []
        try:
            user = c.user
            orig_gp = user.get_permissions

            async def logged_gp(path):
                lookups.append(str(path))
                return await orig_gp(path)
            user.get_permissions = logged_gp
        except Exception:
            lookups = None
        s0 = rig.sessions[0]
        lines = [f"{verb} {arg}".rstrip(), "CWD " + cwd2]
        if verb == "RNFR":
            lines = [f"RNFR {arg}", "RNTO moved", "CWD " + cwd2]
            lines = [lines[0], lines[2], lines[1]]          # the CWD sits between RNFR and RNTO
        chooser.active = True
        s0.send(("\r\n".join(lines) + "\r\n").encode())
        w.settle(5)
        if verb in ("STOR", "APPE") and s0.data is not None:
            rig.ev(0, "@dsend NEW")
            rig.ev(0, "@dclose")
        chooser.active = False
        w.settle(5)
        rig.collect()
        codes = [cd for _, r in s0.transcript for cd, _ in r]
        text = " ".join(" ".join(ls) for _, r in s0.transcript[-4:] for _, ls in r)
        after = rig.snapshot()
        for pth in sorted(set(before) | set(after)):
            if before.get(pth, "<absent>") != after.get(pth, "<absent>"):
                if not _perm(table, pth)[1]:
                    problems.append({"kind": "tree-changed-where-writing-is-denied", "path": pth, "sent": lines,
                                     "before": repr(before.get(pth, "<absent>")), "after": repr(after.get(pth, "<absent>"))})
        got = s0.data.received if s0.data is not None else b""
        secrets = []
        if not _perm(table, "/priv")[0]:
            secrets = [b"PRIVATE", b"secret", b"Size=9"]
        elif not _perm(table, "/priv/f")[0]:
            # a listing of the readable parent legitimately shows the entry; its content, or a stat of the entry
            # itself, does not
            secrets = [b"PRIVATE-F"] + ([b"Size=9"] if verb == "MLST" else [])
        for sec in secrets:
            if sec in got or sec.decode() in text:
                problems.append({"kind": "unreadable-location-revealed", "what": sec.decode(), "sent": lines,
                                 "data": got[:80].decode("latin-1"), "replies": text[-200:]})
                break
        if s0.closed():
            problems.append({"kind": "session-ended", "sent": lines, "codes": codes})
        # C02: "the virtual path the server uses for permission lookup is the location actually addressed"
        if lookups is not None:
            for op, pth in spy.calls:
                if op in ("unlink", "mkdir", "rmdir", "_open") and pth not in lookups:
                    problems.append({"kind": "operated-on-a-location-other-than-the-one-looked-up", "op": op,
                                     "operated": pth, "looked_up": lookups, "sent": lines})
                    break
                if op == "rename":
                    a_, _, b_ = pth.partition(" -> ")
                    if a_ not in lookups or b_ not in lookups:
                        problems.append({"kind": "operated-on-a-location-other-than-the-one-looked-up", "op": op,
                                         "operated": pth, "looked_up": lookups, "sent": lines})
                        break
        return {"problems": problems, "events": w.net.n_events, "trace": report.fp(w.net.trace),
                "outcome": report.fp([codes[-3:], sorted(after) == sorted(before)])}
    finally:
        rig.close()


def pipelined_cwd_work(item):
    from vf.explore import explore
    from vf.simloop import ReplayDivergence
    case, bound = item
    part = report.Partial()
    kinds = ["order", "early"]
    try:
        for ch, res in explore(lambda c: run_pipelined_cwd(case, c), bound, kinds=kinds, max_exec=3000):
            if ch is None:
                part.caps.append({"pipelined-cwd": case, "cap": 3000})
                break
            part.evaluations += 1
            part.traces += 1
            part.transitions += res["events"]
            part.states.add(res["trace"])
            part.nontrivial.add(res["trace"])
            part.outcomes[res["outcome"]] += 1
            part.counters[f"pipelined_cwd_exec_dev{ch.deviations}"] += 1
            only = case.get("only_kind")
            for p in [q for q in res["problems"] if only is None or q["kind"] == only][:1]:
                part.violation({"kind": p["kind"], "verb": case["verb"], "table": case["table"], "pipelined_cwd": True},
                               {"problem": p, "case": case}, replay={"pipelined_cwd": case, "choices": ch.choices,
                                                                      "kinds": kinds})
    except ReplayDivergence as exc:
        part.infra.append(f"replay divergence in pipelined cwd {case}: {exc}")
    return part


def pipelined_cwd_items(tier):
    items = []
    for tname in PTABLES:
        for verb in PVERBS:
            for cwd1, cwd2 in (("/pub", "/priv"), ("/priv", "/pub")):
                for mode in ("jobs", "exists", "is_file", "is_dir", "stat"):
                    case = {"table": tname, "verb": verb, "cwd1": cwd1, "cwd2": cwd2, "mode": mode}
                    items.append((case, (1 if tier == "quick" else 2) if mode == "jobs" else 0))
    return items


# -- names that differ only in their Unicode normalisation form are different names -------------------------------------
UFORMS = [("caf\u00e9", "cafe\u0301"), ("\u00c5ngstr\u00f6m", "\u212bngstro\u0308m"), ("\u03a9hm", "\u2126hm"),
          ("\uac00", "\u1100\u1161")]
UVERBS = {"CWD": "{d}", "LIST": "{d}", "MLSD": "{d}", "MLST": "{d}/secret.txt", "RETR": "{d}/secret.txt", "MKD": "{d}/n",
          "RMD": "{d}/sub", "DELE": "{d}/secret.txt", "RNFR": "{d}/secret.txt", "RNTO": "{d}/moved", "STOR": "{d}/up",
          "APPE": "{d}/secret.txt"}


def unicode_forms(item):
    """an entry closes one directory; the same letters in another normalisation form name another location: whatever
    form the request uses, the closed directory is neither read nor changed nor entered"""
    (composed, decomposed), entry_form, verb = item
    from vf.rig import Rig
    part = report.Partial()
    closed = composed if entry_form == "composed" else decomposed
    other = decomposed if entry_form == "composed" else composed
    problems = []

    def users(a, base):
        return [a.User(base_path=base, permissions=[a.Permission("/" + closed, readable=False, writable=False)])]
    rig = Rig(tree={closed: {"secret.txt": b"S3CR3T-CONTENT", "sub": {}}, "pub": {"free": b"free"}}, users=users)
    try:
        rig.ev(0, "@connect")
        rig.ev(0, "USER anonymous")
        before = rig.snapshot()
        for spelled in (closed, other):
            arg = UVERBS[verb].format(d="/" + spelled)
            transfer = verb in ("LIST", "MLSD", "RETR", "STOR", "APPE")
            if transfer:
                rig.ev(0, "EPSV")
                rig.ev(0, "@data")
            if verb == "RNTO":
                rig.ev(0, "RNFR /pub/free")
            r = rig.ev(0, f"{verb} {arg}")
            codes = [c for c, _ in (r or [])]
            s0 = rig.sessions[0]
            if verb in ("STOR", "APPE") and s0.data is not None and codes[:1] == ["150"]:
                rig.ev(0, "@dsend NEW")
                rig.ev(0, "@dclose")
            if verb == "RNFR" and codes == ["350"]:
                rig.ev(0, "RNTO /pub/stolen")
            got = bytes(s0.data.received) if (transfer and s0.data is not None) else b""
            text = " ".join(" ".join(ls) for _, ls in (r or []))
            after = rig.snapshot()
            inside = lambda k: k == "/" + closed or k.startswith("/" + closed + "/")     # noqa
            changed = [k for k in set(before) | set(after) if before.get(k) != after.get(k) and inside(k)]
            if changed:
                problems.append({"kind": "closed-directory-changed", "verb": verb, "arg": arg, "changed": changed, "codes": codes})
            if b"S3CR3T" in got or b"secret.txt" in got or "secret.txt" in text and spelled != closed:
                problems.append({"kind": "closed-directory-read", "verb": verb, "arg": arg, "codes": codes})
            if spelled == closed and codes and codes[0][:1] in "123":
                problems.append({"kind": "request-on-the-closed-directory-not-refused", "verb": verb, "arg": arg, "codes": codes})
            pwd = rig.ev(0, "PWD")
            ptxt = " ".join(pwd[0][1]) if pwd else ""
            if ("/" + closed) in ptxt:
                problems.append({"kind": "entered-the-closed-directory", "verb": verb, "arg": arg, "pwd": ptxt})
            before = after
        part.evaluations += 1
        part.traces += 1
        part.transitions += rig.world.net.n_events
        k = report.fp(["unicode-forms", composed, entry_form, verb])
        part.states.add(k)
        part.nontrivial.add(k)
        for p_ in problems[:1]:
            part.violation({"kind": p_["kind"], "verb": verb, "unicode_forms": True}, {"problem": p_, "entry": closed},
                           replay={"unicode": [list(item[0]), entry_form, verb]})
    finally:
        rig.close()
    return part


def wire_items(tier):
    items = []
    for tname in WTABLES:
        for verb in VERBS:
            for cwd in CWDS:
                if verb == "CDUP":
                    items.append((tname, verb, "/", cwd))
                    continue
                for t in TARGETS:
                    if tier == "quick" and cwd == "/priv/sub" and t in ("/top", "/new"):
                        continue
                    items.append((tname, verb, t, cwd))
    return items


def run(tier, seed, t0):
    parts = report.pmap(func_work, func_items(tier)) + report.pmap(wire_case, wire_items(tier)) + \
        report.pmap(late_case, late_items()) + report.pmap(relogin_case, relogin_items()) + \
        report.pmap(pipelined_cwd_work, pipelined_cwd_items(tier)) + \
        report.pmap(unicode_forms, [(pair, form, verb) for pair in (UFORMS if tier != "quick" else UFORMS[:2])
                                    for form in ("composed", "decomposed") for verb in UVERBS])
    part = report.merge_all(parts)
    bounds = {"function": {"entries": len(ENTRIES), "tables": "all ordered tables of <= 3 entries (with duplicates) over 6 paths x 4 flag combinations",
                           "queries": "all paths of depth <= %d over {a,b,c}" % (3 if tier == "quick" else 4)},
              "wire": {"tables": list(WTABLES), "verbs": VERBS, "targets": TARGETS, "cwds": CWDS,
                       "alias_spellings": 8},
              "unicode_forms": "a closed directory whose name has a composed and a decomposed form (4 pairs; quick 2) x entry in either form x request in either form x 12 verbs: effect oracle",
              "relogin": {"table_pairs": list(RELOGIN_PAIRS), "touch": RELOGIN_TOUCH, "verbs": RELOGIN_VERBS,
                          "users": "alice (password) and guest (no password), either first"},
              "pipelined_cwd": {"tables": list(PTABLES), "verbs": list(PVERBS), "backend": "path checks suspend: executor "
                                "jobs completed in every order with <= %d deviations, or one slow operation kind"
                                % (1 if tier == "quick" else 2),
                                "oracle": "effects: tree changes only where writable, nothing revealed of unreadable places"},
              "late_data": {"tables": list(LATE_TABLES), "verbs": ["RETR", "STOR", "APPE", "LIST", "MLSD"],
                            "what": "verb before the data connection, CWD to a differently-permitted directory while "
                                    "the server waits, then the data connection"}}
    return report.finish(
        PID, tier, seed, "model_checking", part, t0,
        rule="function level: exhaustive (table, query) enumeration against a longest-prefix oracle; wire level: every "
             "(table, verb, target, cwd, alias) executed on the real server and compared with the reference model (550 on "
             "denial, tree/cwd/pending rename unchanged, same verdict for every alias). Non-trivial = table with >= 2 "
             "entries / alias different from the canonical spelling.",
        bounds=bounds,
        assumptions=["environment model SimLoop/SimNet", "reference model vf/model.py"])


def replay(path):
    data = json.loads(open(path).read())
    rp = data["replay"]
    if rp.get("pipelined_cwd"):
        from vf.simloop import Chooser
        res = run_pipelined_cwd(rp["pipelined_cwd"], Chooser(rp["choices"], rp["kinds"]))
        print(json.dumps(res["problems"], indent=1, default=repr))
        return 1 if res["problems"] else 0
    if rp.get("unicode"):
        u = rp["unicode"]
        part = unicode_forms((tuple(u[0]), u[1], u[2]))
    elif rp.get("relogin"):
        part = relogin_case(tuple(rp["relogin"]))
    elif rp.get("late"):
        part = late_case(tuple(rp["late"]))
    elif rp.get("func"):
        part = func_work(([tuple(tuple(e) for e in rp["table"])], [rp["query"]]))
    else:
        part = wire_case(tuple(rp["wire"]))
    print(json.dumps([v["detail"] for v in part.violations], indent=1, default=repr))
    return 1 if part.violations else 0
