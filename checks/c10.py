"""C10 Connection limits are exact and slots are always returned.

E2: breadth-first search over interleaved event histories of 2-3 sessions
(connect / USER / PASS / QUIT / drop / reset / handler error / idle expiry),
the real server being the transition function, against a reference counter
model; states de-duplicated on (model state, white-box counters).  E1: the
disconnect races under <= d schedule deviations.  DESIGN.md §5 C10.
"""
import json

from vf import ledger, report, logcap
from vf.explore import explore
from vf.rig import Rig
from vf.simloop import Chooser, ReplayDivergence
from vf.world import Session
from vf.usermgr import make_slow_manager

PID = "C10"
IDLE = 30
USERS = {"alice": (None, 1), "bob": ("pw", 2), "anonymous": (None, None)}


def users_factory(a, base):
    return [a.User("alice", None, base_path=base, maximum_connections=1),
            a.User("bob", "pw", base_path=base, maximum_connections=2),
            a.User(base_path=base)]


def users_anonymous_first(a, base):
    # the same accounts, the anonymous one listed first (the order of the table means nothing)
    table = users_factory(a, base)
    return [table[2], table[1], table[0]]


def slow_users_factory(a, base, **kw):
    # the same table behind a user manager that suspends in every operation (see vf/usermgr.py)
    return make_slow_manager(a, users_factory(a, base), **kw)


class Model:
    """reference counter model"""

    def __init__(self, n, limit):
        self.limit = limit
        self.sess = [("none",)] * n      # ("none",) | ("open", user, logged) | ("dead",)
        self.used = 0
        self.uused = {"alice": 0, "bob": 0, "anonymous": 0}

    def key(self):
        return (tuple(self.sess), self.used, tuple(sorted(self.uused.items())))

    def _end(self, i):
        st = self.sess[i]
        if st[0] == "open":
            self.used -= 1
            if st[1] is not None:
                self.uused[st[1]] -= 1
        self.sess[i] = ("dead",)

    def enabled(self, i, e):
        st = self.sess[i][0]
        if e == "@connect":
            return st == "none"
        return st == "open"

    def step(self, i, e):
        """returns expected codes (list) for session i"""
        st = self.sess[i]
        if e == "@connect" or e.startswith("@connect-as "):
            if self.limit is not None and self.used >= self.limit:
                self.sess[i] = ("dead",)
                return ["421"]
            self.used += 1
            self.sess[i] = ("open", None, False)
            return ["220"]
        if e.startswith("USER "):
            u = e[5:]
            if st[1] is not None:
                self.uused[st[1]] -= 1
            name = u if u in ("alice", "bob") else ("anonymous" if True else None)
            # MemoryUserManager: an unknown login falls back to the anonymous (login=None) user
            pw, mx = USERS[name]
            if mx is not None and self.uused[name] >= mx:
                self.sess[i] = ("open", None, False)
                return ["530"]
            self.uused[name] += 1
            if pw is None:
                self.sess[i] = ("open", name, True)
                return ["230"]
            self.sess[i] = ("open", name, False)
            return ["331"]
        if e.startswith("PASS "):
            if st[1] is None:
                return ["503"]
            if st[2]:
                return ["503"]
            if USERS[st[1]][0] == e[5:]:
                self.sess[i] = ("open", st[1], True)
                return ["230"]
            return ["530"]
        if e == "QUIT":
            self._end(i)
            return ["221"]
        if e == "PWD":
            return ["257"] if st[2] else ["503"]
        if e == "CWD-FAILS":
            # a command the dispatcher treats as a barrier, failing in the backend: 451, and the session goes on
            return ["451"] if st[2] else ["503"]
        if e in ("@drop", "@rst", "BOOM"):
            self._end(i)
            return []
        if "\r\n" in e:
            # several lines in one segment: only the accounting matters (the last one may be QUIT)
            if e.endswith("QUIT"):
                self._end(i)
            return None
        if e in ("PASV", "LIST", "", "FOO", "SYST", "NOOP"):
            return None          # replies of these are C05's business; here only the accounting matters
        raise ValueError(e)

    def idle(self):
        for i, st in enumerate(self.sess):
            if st[0] == "open":
                self._end(i)


def build(hist, n, limit, chooser=None, explore_from=None, slow=False):
    """replay a history on a fresh server; returns (rig, model, problems, last replies)"""
    if slow == "anonymous-first":
        ufac = users_anonymous_first
    elif isinstance(slow, dict):
        ufac = lambda a, base: slow_users_factory(a, base, **slow)     # noqa
    else:
        ufac = slow_users_factory if slow else users_factory
    rig = Rig(chooser=chooser, n_sessions=n, users=ufac, tree={}, advance=0,
              server_kwargs={"maximum_connections": limit, "idle_timeout": IDLE, "wait_future_timeout": 1})

    async def boom(connection, rest):
        raise RuntimeError("injected handler error")

    rig.server.commands_mapping["boom"] = boom
    model = Model(n, limit)
    problems = []
    if chooser is not None:
        chooser.active = explore_from is None
    for k, (i, e) in enumerate(hist):
        if chooser is not None and explore_from is not None and k >= explore_from:
            chooser.active = True
        if i == -1:  # global events
            if e == "@idle":
                rig.world.settle(IDLE + 1)
                model.idle()
                rig.collect()
            elif e == "@restart":
                # server.close() with whatever is in flight, then the same server object is started again
                ok, _t = rig.world.close_server(rig.server)
                if not ok:
                    problems.append({"kind": "server-close-did-not-complete", "history": hist[:k + 1]})
                rig.world.settle(0)
                model.idle()
                rig.world.start_server(rig.server)
                rig.collect()
            elif e == "@wait425":
                rig.world.settle(1.5)           # past wait_future_timeout, short of the idle timeout
                rig.collect()
            continue
        nosettle = e.endswith("!")
        exp = model.step(i, e.rstrip("!"))
        if e == "CWD-FAILS":
            rig.spy.fail_from, rig.spy.fail_op = 0, "exists"
            try:
                r = rig.ev(i, "CWD /")
            finally:
                rig.spy.fail_from = rig.spy.fail_op = None
        else:
            r = rig.ev(i, e)
        if nosettle:
            continue
        rig.world.settle(0)
        rig.collect()
        s = rig.sessions[i]
        got = [c for _, rr in s.transcript[-1:] for c, _ in rr] if (r or s.transcript) else []
        got = [c for c, _ in (r or [])]
        if not any(ev.endswith("!") for _, ev in hist[:k + 1]):
            if exp is not None and got != exp:
                problems.append({"kind": "admission-differs-from-model", "step": [i, e], "got": got, "expected": exp,
                                 "history": hist[:k + 1]})
        problems += counters_vs_model(rig, model, hist[:k + 1])
    return rig, model, problems


def counters_vs_model(rig, model, hist):
    out = []
    srv = rig.server
    try:
        v = srv.available_connections.value
        if model.limit is not None and v != model.limit - model.used:
            out.append({"kind": "server-counter", "value": v, "expected": model.limit - model.used, "history": hist})
        for user, ac in srv.user_manager.available_connections.items():
            name = user.login or "anonymous"
            mx = USERS[name][1]
            if mx is not None and ac.value != mx - model.uused[name]:
                out.append({"kind": "user-counter", "user": name, "value": ac.value,
                            "expected": mx - model.uused[name], "history": hist})
    except AttributeError:
        pass
    return out


def digest(rig):
    srv = rig.server
    try:
        workers = tuple(sorted((c.future.passive_server.done(), len([w for w in c.extra_workers if not w.done()]))
                               for c in srv.connections.values()))
        return (srv.available_connections.value,
                tuple(sorted((u.login or "", ac.value) for u, ac in srv.user_manager.available_connections.items())),
                len(srv.connections), workers)
    except AttributeError:
        return ()


def final_probe(rig, model, hist):
    """end every session, then the full limit must be available again (black box)"""
    problems = []
    w = rig.world
    for s in rig.sessions:
        if s.ctl is not None:
            s.peer.vanish()
    w.settle(0)
    limit = model.limit
    # white box (skipped if the attributes disappear): with nobody connected every counter is back at its maximum -
    # not below (a leak) and not above (a slot returned twice admits one session too many later)
    try:
        srv = rig.server
        if limit is not None and srv.available_connections.value != limit:
            problems.append({"kind": "server-counter-after-all-gone", "value": srv.available_connections.value,
                             "expected": limit, "history": hist})
        for user, ac in srv.user_manager.available_connections.items():
            if ac.maximum_value is not None and ac.value != ac.maximum_value:
                problems.append({"kind": "user-counter-after-all-gone", "user": user.login or "anonymous", "value": ac.value,
                                 "expected": ac.maximum_value, "history": hist})
    except AttributeError:
        pass
    probes = []
    if limit is not None:
        for k in range(limit + 1):
            s = Session(w, name=f"probe{k}", advance=0)
            probes.append(s)
            r = s.connect()
            code = r[-1][0] if r else None
            want = "220" if k < limit else "421"
            if code != want:
                problems.append({"kind": "probe-server-limit", "k": k, "code": code, "want": want, "history": hist})
        for s in probes:
            s.peer.vanish()
        w.settle(0)
    for name, (pw, mx) in USERS.items():
        if mx is None:
            continue
        cap = mx if limit is None else min(mx, limit)
        ps = []
        for k in range(cap + (1 if (limit is None or mx < limit) else 0)):
            s = Session(w, name=f"probe-{name}{k}", advance=0)
            ps.append(s)
            s.connect()
            r = s.cmd("USER " + name)
            code = r[-1][0] if r else None
            want = ("331" if pw else "230") if k < mx else "530"
            if code != want:
                problems.append({"kind": "probe-user-limit", "user": name, "k": k, "code": code, "want": want,
                                 "history": hist})
        for s in ps:
            s.peer.vanish()
        w.settle(0)
    for p in ledger.released_problems(w, rig.server):
        problems.append({**p, "history": hist})
    return problems


ALPHABET = ["@connect", "USER alice", "USER bob", "USER nobody", "PASS pw", "PASS bad", "QUIT", "@drop", "@rst", "BOOM", "CWD-FAILS",
            "PASV", "LIST", "", "FOO"]      # an empty line and an unknown verb; # LIST without a data connection: a worker waits, then 425 - the session may end meanwhile


def expand(item):
    """BFS worker: execute one (history, n, limit) and all its one-step extensions' parent check"""
    hist, n, limit, *rest = item
    slow = (rest[0] if rest and isinstance(rest[0], str) else bool(rest and rest[0]))
    part = report.Partial()
    with logcap.capture() as cap:
        rig, model, problems = build(hist, n, limit, slow=slow)
        try:
            key = (model.key(), digest(rig))
            problems += final_probe(rig, model, hist)
            bad = [t for r, t in cap.records if "Too many acquires" in t or "Too many releases" in t]
            if bad:
                problems.append({"kind": "accounting-failed", "log": bad[0][-300:], "history": hist})
            for ctx in rig.world.loop_errors():
                if isinstance(ctx.get("exception"), ValueError):
                    problems.append({"kind": "accounting-failed", "log": repr(ctx.get("exception")), "history": hist})
            part.evaluations += 1
            part.traces += 1
            part.transitions += len(hist)
            part.states.add(report.fp([key, slow]))
            if any(e in ("@drop", "@rst", "BOOM", "@idle") or e.startswith("PASS bad") for _, e in hist):
                part.nontrivial.add(report.fp(key))
            part.outcomes[report.fp(key[0])] += 1
            part.sample({"n": n, "limit": limit, "history": hist}, limit=1)
            for p in problems:
                part.violation({"kind": p["kind"], "last": (hist[-1][1] if hist else None)},
                               {"problem": p, "n": n, "limit": limit, "slow_user_manager": slow},
                               replay={"mode": "hist", "hist": hist, "n": n, "limit": limit, "slow": slow})
            enabled = [(i, e) for i in range(n) for e in ALPHABET if model.enabled(i, e)]
            if any(st[0] == "open" for st in model.sess):
                enabled.append((-1, "@idle"))
                if any(e == "LIST" for _, e in hist) and (not hist or hist[-1] != (-1, "@wait425")):
                    enabled.append((-1, "@wait425"))
            return part, key, enabled
        finally:
            rig.close()


RACES = [
    ("connect-drop", 1, 1, [(0, "@connect!"), (0, "@drop")], 0),
    ("user-drop", 1, 1, [(0, "@connect"), (0, "USER bob!"), (0, "@drop")], 1),
    ("user-rst", 2, 1, [(0, "@connect"), (0, "USER alice!"), (0, "@rst")], 1),
    ("user-user-drop", 1, 1, [(0, "@connect"), (0, "USER alice!"), (0, "USER bob!"), (0, "@drop")], 1),
    ("user-pass-drop", 1, 1, [(0, "@connect"), (0, "USER bob!"), (0, "PASS pw!"), (0, "@drop")], 1),
    ("user-quit", 1, 1, [(0, "@connect"), (0, "USER alice!"), (0, "QUIT")], 1),
    ("two-connect-one-slot", 2, 1, [(0, "@connect!"), (1, "@connect!"), (0, "@drop")], 0),
    # the last slot is being given back while the next client arrives (its connection lands at every point of the
    # first session's tear-down)
    ("drop-then-connect-one-slot", 2, 1, [(0, "@connect"), (0, "@drop!"), (1, "@connect")], 1),
    ("rst-then-connect-one-slot", 2, 1, [(0, "@connect"), (0, "@rst!"), (1, "@connect")], 1),
    ("quit-then-connect-one-slot", 2, 1, [(0, "@connect"), (0, "QUIT!"), (1, "@connect")], 1),
    ("login-drop-then-connect-login", 2, 1, [(0, "@connect"), (0, "USER alice"), (0, "@drop!"), (1, "@connect!"), (1, "USER alice")], 2),
    # several commands and QUIT in one segment from a peer that is gone at once (the reply writer fails while the
    # commands are still being worked off)
    ("pipelined-quit-rst", 1, 1, [(0, "@connect"), (0, "SYST\r\nSYST\r\nQUIT!"), (0, "@rst")], 1),
    ("pipelined-quit-drop", 1, 1, [(0, "@connect"), (0, "SYST\r\nSYST\r\nQUIT!"), (0, "@drop")], 1),
    ("login-pipelined-quit-rst", 1, 1, [(0, "@connect"), (0, "USER alice"), (0, "PWD\r\nSYST\r\nNOOP\r\nQUIT!"), (0, "@rst")], 2),
    # a peer that resets and comes back at once from the same address (host, port), then the server is shut down
    ("reconnect-same-address-restart", 2, 2, [(0, "@connect"), (0, "USER alice"), (0, "@rst!"), (1, "@connect-as 0"),
                                              (1, "USER alice!"), (-1, "@restart")], 2),
    ("reconnect-same-address-quit", 2, 2, [(0, "@connect"), (0, "@rst!"), (1, "@connect-as 0"), (1, "USER alice"),
                                           (1, "QUIT")], 2),
    ("relogin-race", 2, 2, [(0, "@connect"), (1, "@connect"), (0, "USER alice"), (0, "USER bob!"), (1, "USER alice")], 3),
    ("boom-while-user", 1, 1, [(0, "@connect"), (0, "USER bob!"), (0, "BOOM")], 1),
    # the same races with a user manager that suspends inside get_user / authenticate / notify_logout: the
    # disconnect (or the next pipelined command) now also lands while a login handler is parked in the manager
    ("slow-user-drop", 1, 1, [(0, "@connect"), (0, "USER bob!"), (0, "@drop")], 1, True),
    ("slow-relogin-drop", 1, 1, [(0, "@connect"), (0, "USER alice"), (0, "USER bob!"), (0, "@drop")], 2, True),
    ("slow-relogin-rst", 2, 1, [(0, "@connect"), (0, "USER bob"), (0, "PASS pw"), (0, "USER alice!"), (0, "@rst")], 3, True),
    ("slow-pass-drop", 1, 1, [(0, "@connect"), (0, "USER bob"), (0, "PASS pw!"), (0, "@drop")], 2, True),
    ("slow-user-user", 1, 1, [(0, "@connect"), (0, "USER alice"), (0, "USER bob!"), (0, "USER bob")], 2, True),
    ("slow-user-user-drop", 1, 1, [(0, "@connect"), (0, "USER alice"), (0, "USER bob!"), (0, "USER alice!"), (0, "@drop")],
     2, True),
    ("slow-user-quit", 1, 1, [(0, "@connect"), (0, "USER alice"), (0, "USER bob!"), (0, "QUIT")], 2, True),
    ("slow-two-sessions-one-user-slot", 2, 2, [(0, "@connect"), (1, "@connect"), (0, "USER alice!"), (1, "USER alice")],
     2, True),
    ("slow-boom-while-user", 1, 1, [(0, "@connect"), (0, "USER alice"), (0, "USER bob!"), (0, "BOOM")], 2, True),
    # server.close() (and a restart) while a login handler is parked in the user manager
    ("slow-relogin-restart", 1, 2, [(0, "@connect"), (0, "USER alice"), (0, "USER bob!"), (-1, "@restart")], 2, True),
    ("slow-user-restart", 1, 1, [(0, "@connect"), (0, "USER alice!"), (-1, "@restart")], 1, True),
    ("slow-pass-restart", 1, 1, [(0, "@connect"), (0, "USER bob"), (0, "PASS pw!"), (-1, "@restart")], 2, True),
    # the user manager itself fails (database down) in the middle of a re-login / a login / a password check
    ("um-fails-on-relogin", 1, 2, [(0, "@connect"), (0, "USER alice"), (0, "USER bob"), (0, "@drop")], 2,
     {"ops": (), "fail": {"get_user": 2}}),
    ("um-fails-on-login", 1, 1, [(0, "@connect"), (0, "USER alice"), (0, "@drop")], 1, {"ops": (), "fail": {"get_user": 1}}),
    ("um-fails-on-pass", 1, 1, [(0, "@connect"), (0, "USER bob"), (0, "PASS pw"), (0, "@drop")], 2,
     {"ops": (), "fail": {"authenticate": 1}}),
    ("um-fails-on-logout-notification", 1, 1, [(0, "@connect"), (0, "USER alice"), (0, "USER bob"), (0, "QUIT")], 2,
     {"ops": (), "fail": {"notify_logout": 1}}),
    ("slow-um-fails-on-relogin", 1, 2, [(0, "@connect"), (0, "USER alice"), (0, "USER bob"), (0, "@drop")], 2,
     {"fail": {"get_user": 2}}),
]


def run_race(case, chooser):
    name, n, limit, hist, ef, *rest = case
    slow = rest[0] if rest else False
    with logcap.capture() as cap:
        rig, model, problems = build(hist, n, limit, chooser=chooser, explore_from=ef, slow=slow)
        try:
            chooser.active = False
            rig.world.settle(0)
            problems = [p for p in problems if p["kind"] != "admission-differs-from-model"]
            # counters may be compared only at the end of a race (the model is sequential)
            problems = [p for p in problems if p["kind"] == "server-close-did-not-complete"]
            problems += final_probe(rig, model, hist)
            bad = [t for r, t in cap.records if "Too many acquires" in t or "Too many releases" in t]
            if bad:
                problems.append({"kind": "accounting-failed", "log": bad[0][-300:], "history": hist})
            for ctx in rig.world.loop_errors():
                if isinstance(ctx.get("exception"), ValueError):
                    problems.append({"kind": "accounting-failed", "log": repr(ctx.get("exception")), "history": hist})
            return {"problems": problems, "trace": report.fp(rig.world.net.trace), "events": rig.world.net.n_events}
        finally:
            rig.close()


# -- a reply the server's encoding cannot represent (the home directory of user eve) ---------------------------------
ENC_CASES = [
    ["USER eve", "PWD"],
    ["USER eve", "PWD", "QUIT"],
    ["USER eve", "PWD!", "QUIT"],
    ["USER eve", "PWD", "PWD", "QUIT"],
    ["USER eve", "MLST", "QUIT"],
    ["USER eve", "PWD", "USER alice"],
    ["USER eve", "PWD", "@drop"],
    ["USER eve", "CWD /", "PWD", "QUIT"],
    ["USER alice", "USER eve", "PWD", "USER bob", "PASS pw", "QUIT"],
]


def run_enc_case(hist, chooser):
    """server encoding latin-1, user eve (limit 1) whose home directory is /€uro: whatever happens to the session whose
    reply cannot be encoded, once it is gone every slot is available again"""
    def users(a, base):
        return users_factory(a, base) + [a.User("eve", None, base_path=base, home_path="/€uro", maximum_connections=1)]
    rig = Rig(chooser=chooser, n_sessions=1, users=users, tree={"€uro": {}}, advance=0,
              server_kwargs={"maximum_connections": 1, "idle_timeout": IDLE, "wait_future_timeout": 1,
                             "encoding": "latin-1"})
    try:
        with logcap.capture() as cap:
            chooser.active = False
            rig.ev(0, "@connect")
            chooser.active = True
            for e in hist:
                rig.ev(0, e)
            rig.world.settle(0)
            chooser.active = False
            model = Model(1, 1)
            problems = final_probe(rig, model, hist)
            s = Session(rig.world, name="probe-eve", advance=0)
            s.connect()
            r = s.cmd("USER eve")
            code = r[-1][0] if r else None
            if code != "230":
                problems.append({"kind": "probe-user-limit", "user": "eve", "code": code, "want": "230", "history": hist})
            bad = [t for r_, t in cap.records if "Too many acquires" in t or "Too many releases" in t]
            if bad:
                problems.append({"kind": "accounting-failed", "log": bad[0][-300:], "history": hist})
        return {"problems": problems, "trace": report.fp(rig.world.net.trace), "events": rig.world.net.n_events}
    finally:
        rig.close()


def _enc_work(item):
    hist, bound, kinds = item
    part = report.Partial()
    try:
        for ch, res in explore(lambda c: run_enc_case(hist, c), bound, kinds=kinds, max_exec=5000):
            if ch is None:
                part.caps.append({"enc-case": hist, "cap": 5000})
                break
            part.evaluations += 1
            part.traces += 1
            part.transitions += res["events"]
            part.states.add(res["trace"])
            part.nontrivial.add(res["trace"])
            part.counters[f"unencodable_reply_exec_dev{ch.deviations}"] += 1
            for p in res["problems"][:1]:
                part.violation({"kind": p["kind"], "unencodable_reply": True, "last": hist[-1]}, {"problem": p},
                               replay={"mode": "enc", "hist": hist, "choices": ch.choices, "kinds": kinds})
    except ReplayDivergence as exc:
        part.infra.append(f"replay divergence in enc case {hist}: {exc}")
    return part


def _race_work(item):
    case, bound, kinds = item
    part = report.Partial()
    try:
        for ch, res in explore(lambda c: run_race(case, c), bound, kinds=kinds, max_exec=20000):
            if ch is None:
                part.caps.append({"case": case[0], "cap": 20000})
                break
            part.evaluations += 1
            part.traces += 1
            part.transitions += res["events"]
            part.states.add(res["trace"])
            part.nontrivial.add(res["trace"])
            part.counters[f"race_exec_dev{ch.deviations}"] += 1
            if ch.deviations:
                part.sample({"race": case[0], "history": case[3], "choices": ch.choices}, limit=1)
            for p in res["problems"]:
                part.violation({"kind": p["kind"], "race": case[0]}, {"problem": p},
                               replay={"mode": "race", "case": list(case), "choices": ch.choices, "kinds": kinds})
    except ReplayDivergence as exc:
        part.infra.append(f"replay divergence in race {case[0]}: {exc}")
    return part


def bfs(n, limit, depth, cap_states, slow=False):
    total = report.Partial()
    seen = set()
    frontier = [[]]
    level = 0
    while frontier and level <= depth:
        results = report.pmap(expand, [(h, n, limit, slow) for h in frontier])
        nxt = []
        for h, (part, key, enabled) in zip(frontier, results):
            total.merge(part)
            if key in seen:
                continue
            seen.add(key)
            if level < depth:
                for ev in enabled:
                    nxt.append(h + [ev])
        total.counters[f"bfs_n{n}_limit{limit}{'_' + str(slow) if isinstance(slow, str) else '_slow' if slow else ''}_level{level}"] = len(frontier)
        if len(nxt) > cap_states:
            total.caps.append({"bfs": [n, limit], "level": level + 1, "frontier": len(nxt), "cap": cap_states})
            nxt = nxt[:cap_states]
        frontier = nxt
        level += 1
    total.counters[f"bfs_n{n}_limit{limit}{'_' + str(slow) if isinstance(slow, str) else '_slow' if slow else ''}_distinct_states"] = len(seen)
    return total


def run(tier, seed, t0):
    depth = 5 if tier == "quick" else 9
    cap = 6000 if tier == "quick" else 400000
    parts = []
    configs = [(2, 1), (2, 2), (2, None), (3, 2)] if tier == "quick" else [(2, 1), (2, 2), (2, None), (3, 1), (3, 2), (3, 3), (3, None)]
    for n, limit in configs:
        parts.append(bfs(n, limit, depth if n == 2 else depth - 1, cap))
    # the same automaton behind a suspending user manager (canonical schedule; the races below vary the schedule)
    parts.append(bfs(2, 1, depth - 1, cap, slow=True))
    # ... and with the accounts listed in another order
    parts.append(bfs(2, 2, depth - 1, cap, slow="anonymous-first"))
    bound = 1 if tier == "quick" else 3
    kinds = ["early", "order", "batch"]
    # (the races with several lines in one segment also under every order in which the dispatcher looks at the tasks
    # that finished in the same turn)
    parts += report.pmap(_race_work, [(c, max(bound, 3) if "pipelined" in c[0] else bound,
                                       kinds + (["done"] if "pipelined" in c[0] else [])) for c in RACES])
    parts += report.pmap(_enc_work, [(h, bound, ["early", "order", "done"]) for h in ENC_CASES])
    part = report.merge_all(parts)
    bounds = {"sessions": "2..3", "server_limits": [1, 2, None], "users": {k: v[1] for k, v in USERS.items()},
              "alphabet": ALPHABET + ["@idle (global)"], "bfs_depth": depth, "race_deviation_bound": bound,
              "races": [c[0] for c in RACES], "unencodable_replies": "latin-1 server, user with home /€uro, %d scripts under <= d deviations incl. done-set orders" % len(ENC_CASES),
              "user_managers": ["MemoryUserManager", "suspending subclass (vf/usermgr.py)"]}
    return report.finish(
        PID, tier, seed, "model_checking", part, t0,
        rule="BFS over interleaved event histories with the real server as transition function; a state is the history "
             "reaching it (rebuilt on a fresh server), de-duplicated on (reference-model state, white-box counters); "
             "every state gets the admission comparison, the counter comparison and the black-box limit probe. "
             "Non-trivial = history containing a disconnect, reset, handler error, idle expiry or failed login. Races: "
             "all schedules with <= d deviations.",
        bounds=bounds,
        assumptions=["environment model SimLoop/SimNet", "reference counter model written from the property statement "
                     "(unknown logins map to the anonymous user as MemoryUserManager does)"])


def replay(path):
    data = json.loads(open(path).read())
    rp = data["replay"]
    if rp["mode"] == "enc":
        res = run_enc_case(rp["hist"], Chooser(rp["choices"], rp["kinds"]))
        print(json.dumps(res["problems"], indent=1, default=repr))
        return 1 if res["problems"] else 0
    if rp["mode"] == "hist":
        hist = [tuple(x) for x in rp["hist"]]
        part, key, en = expand((hist, rp["n"], rp["limit"], rp.get("slow", False)))
        print(json.dumps([v["detail"] for v in part.violations], indent=1, default=repr))
        return 1 if part.violations else 0
    case = rp["case"]
    case[3] = [tuple(x) for x in case[3]]
    res = run_race(tuple(case), Chooser(rp["choices"], rp["kinds"]))
    print(json.dumps(res["problems"], indent=1, default=repr))
    return 1 if res["problems"] else 0
