"""C14 ABOR at any moment stops the transfer, is answered, and keeps the session usable.

E1 position enumeration: transfer kind x file size x abort position (after
every network event counted from the transfer verb, and glued to the verb) x
backend x follow-up, under <= d schedule deviations.  DESIGN.md §5 C14.
"""
import json

from vf import ledger, report, backends
from vf.explore import explore
from vf.rig import Rig
from vf.simloop import Chooser, ReplayDivergence
from vf.world import Running

PID = "C14"
B = 4
SIZES = [0, B - 1, B, B + 1, 3 * B]
FOLLOWUPS = ["pwd", "again", "pasv-list", "quit"]


def payload(n):
    return bytes((i * 7 + 3) % 251 for i in range(n))


def tree(size):
    return {"f": payload(size), "d": {"x": b"1", "y": b"22"}, "old": b"OLD"}


def script_for(verb, size, data_conn=True, noread=False, rest=0):
    ev = ["EPSV"]
    if data_conn:
        ev.append("@data")
        if noread:
            ev.append("@dstop")       # the data peer stays connected but does not read
    if rest:
        ev.append(f"REST {rest}")     # a restart offset: the worker has more to do before it touches the data connection
    if verb == "RETR":
        ev.append("RETR f")
    elif verb == "LIST":
        ev.append("LIST d")
    elif verb == "MLSD":
        ev.append("MLSD d")
    else:
        ev.append(f"{verb} " + ("new" if verb == "STOR" else "old"))
        if data_conn:
            p = payload(size)
            for i in range(0, len(p), B):
                ev.append("@dsend " + p[i:i + B].decode("latin-1"))
            ev.append("@dclose")
    return ev


def acceptable(codes, early, allow_running=False):
    """codes after the transfer verb.  Returns None if fine, else a reason."""
    L = list(codes)
    if not L:
        return "silence: ABOR got no answer"
    if "426" in L:
        i = L.index("426")
        if L[i:i + 2] != ["426", "226"]:
            return "426 not followed by 226"
        rest = L[:i] + L[i + 2:]
        if len(rest) == 1 and rest[0].startswith("1"):
            return None
        if not rest:
            return "426 without a started transfer"
        return f"426/226 plus an extra completion {rest}"
    if "226" not in L:
        return "no 226 answer to ABOR"
    # remove ABOR's own 226: the last one unless ABOR overtook the verb
    cands = []
    for i, c in enumerate(L):
        if c == "226":
            cands.append(L[:i] + L[i + 1:])
    for rest, idx in zip(cands, [i for i, c in enumerate(L) if c == "226"]):
        ok_shape = (rest == [] or (len(rest) == 1 and rest[0][0] in "45")
                    or (len(rest) == 2 and rest[0][0] == "1" and rest[1][0] in "245"))
        if not ok_shape:
            continue
        if idx == len(L) - 1:
            return None          # ABOR answered last: nothing (left) to abort
        if early and len(rest) == 1 and rest[0][0] in "45":
            return None          # the transfer was refused anyway; the two answers come from concurrent handlers
    return f"unexpected reply sequence {L}"


def run_double(case, chooser):
    """two transfer commands outstanding at once (both in one segment, one data connection at most), ABOR at event
    position k: every one of them is stopped, the ABOR's answer is the last word, and the next transfer is its own"""
    k = case["k"]
    size = 3 * B
    spy = backends.SpyControl()
    rig = Rig(chooser=chooser, n_sessions=1, tree=tree(size), spy=spy, window=1,
              server_kwargs={"block_size": B, "wait_future_timeout": case.get("wait", 30)}, backend=case["backend"])
    problems = []
    try:
        w = rig.world
        s = rig.sessions[0]
        chooser.active = False
        rig.ev(0, "@connect")
        rig.ev(0, "USER anonymous")
        rig.ev(0, "EPSV")
        if case["data_conn"]:
            rig.ev(0, "@data")
            if case.get("noread"):
                rig.ev(0, "@dstop")
        state = {"sent": False}

        def on_event(nev):
            if not state["sent"] and nev == k:
                state["sent"] = True
                s.ctl.send(b"ABOR\r\n")

        w.net.on_event = on_event
        verb_idx = len(s.transcript)
        chooser.active = True
        w.net.n_events = 0
        pair = (case["first"] + "\r\n" + case["second"] + "\r\n").encode()
        if k == 0:
            state["sent"] = True
            pair += b"ABOR\r\n"
        with Running(w.loop):
            s.ctl.send(pair)
        w.settle(0.5)
        rig.collect()
        nev_total = w.net.n_events
        if not state["sent"]:
            if case.get("probe"):
                return {"problems": [], "reached": False, "events": nev_total, "trace": "", "outcome": ""}
            state["sent"] = True
            with Running(w.loop):
                s.ctl.send(b"ABOR\r\n")
            w.settle(0.5)
            rig.collect()
        chooser.active = False
        codes = [c for _, r in s.transcript[verb_idx:] for c, _ in r]
        sig = {"verb": case["first"].split(" ")[0] + "+" + case["second"].split(" ")[0], "data_conn": case["data_conn"]}
        if s.closed():
            problems.append({"kind": "session-closed-by-abort", "codes": codes})
        elif codes[-1:] != ["226"]:
            # replies come in the order of the commands and ABOR was the last one: its answer (the 226 after a 426, or
            # 'nothing to abort') is the last reply, half a second after it was sent at the latest
            problems.append({"kind": "abor-answer", "why": "the last reply is not the ABOR's 226", "codes": codes})
        if codes.count("426") > sum(1 for c in codes if c[0] == "1"):
            problems.append({"kind": "abor-answer", "why": "more 426 than started transfers", "codes": codes})
        if not s.closed():
            # nothing of the two aborted commands is left: the next transfer gets its own data connection and file
            rig.ev(0, "EPSV", advance=0.25)
            rig.ev(0, "@data", advance=0.25)
            r = rig.ev(0, "RETR old", advance=0.5)
            cs = [c for c, _ in (r or [])]
            if cs != ["150", "226"] or s.data is None or bytes(s.data.received) != b"OLD":
                problems.append({"kind": "followup-transfer", "codes": cs,
                                 "data": None if s.data is None else bytes(s.data.received).decode("latin-1")})
            r = rig.ev(0, "PWD", advance=0.25)
            if [c for c, _ in (r or [])] != ["257"]:
                problems.append({"kind": "followup-pwd", "codes": [c for c, _ in (r or [])]})
        if spy.leaked():
            problems.append({"kind": "file-handle-open", "paths": spy.leaked()})
        s.peer.vanish()
        w.settle(0.75)
        for p in ledger.released_problems(w, rig.server, spy=spy):
            problems.append(p)
        for p in problems:
            p.update(sig)
        return {"problems": problems, "reached": True, "events": nev_total, "trace": report.fp(w.net.trace),
                "outcome": report.fp([sig["verb"], codes])}
    finally:
        rig.close()


def run_abort(case, chooser):
    if case.get("double"):
        return run_double(case, chooser)
    verb, size, k = case["verb"], case["size"], case["k"]
    data_conn = case.get("data_conn", True)
    spy = backends.SpyControl()
    bk = {"memory": dict(backend="memory"), "slow": dict(backend="slow", delay=0.125),
          # the executor-based backend: every file operation is a job whose completion the explorer orders against
          # the ABOR (the cancellation then lands while a job is in flight)
          "async": dict(backend="async")}[case["backend"]]
    skw = {"block_size": B, "wait_future_timeout": 1}
    if case.get("slow_close"):
        # closing a file takes the backend longer than the time the server allows path operations (the stock memory
        # and synchronous backends do not enforce path_timeout): the aborted transfer is still winding up for a while
        bk = dict(backend="slow", delay=0.75, delay_ops=("close",))
        skw["path_timeout"] = 0.25
        spy.honour_timeout = False
    if case.get("throttle"):
        # a speed limit: the worker sits in a throttle pause when the ABOR arrives
        skw["write_speed_limit_per_connection" if case["throttle"] == "write" else "read_speed_limit_per_connection"] = B
    rig = Rig(chooser=chooser, n_sessions=1, tree=tree(size), spy=spy, window=1, server_kwargs=skw, **bk)
    problems = []
    try:
        w = rig.world
        s = rig.sessions[0]
        chooser.active = False
        rig.ev(0, "@connect")
        rig.ev(0, "USER anonymous")
        if case.get("prefail"):
            # earlier in the session a command failed in the backend (451 from its handler): that is over and done with
            for e in ("MKD pf", "MKD pf/x", "RMD pf"):
                rig.ev(0, e)
        script = script_for(verb, size, data_conn, case.get("noread", False), case.get("rest", 0))
        if case.get("close_fails"):
            # the backend fails when the aborted transfer closes its file (disk full at flush, stale handle)
            spy.fail_from, spy.fail_op = 0, "close"
        state = {"armed": False, "sent": False, "early": False, "mark": 0}

        def inject():
            state["sent"] = True
            if case.get("spare"):
                # the client opens the data connection for its *next* transfer just before it aborts this one (same
                # passive port: the server keeps listening)
                state["spare"] = None
                if s.pasv_port is not None:
                    # (white box: the server turns a second connection away while the first one is still unclaimed - if
                    # the running transfer has taken its own, this one is kept for the next transfer)
                    from vf.conform import connection_of
                    conn = connection_of(rig, 0)
                    try:
                        state["spare_must_be_kept"] = conn is not None and not conn.future.data_connection.done()
                    except Exception:
                        state["spare_must_be_kept"] = False
                    try:
                        state["spare"] = s.peer.connect(s.pasv_port, s.host)
                    except ConnectionRefusedError:
                        pass
            raw = bytes(s.ctl.p.total)[state["mark"]:]
            state["early"] = not any(line[:1] == b"1" for line in raw.split(b"\r\n") if line[:3].isdigit())
            if case.get("giveup") and s.data is not None:
                # the usual way of a client to abort: it drops its data connection (close, or reset as unread data is
                # left) and then says ABOR
                if case["giveup"] == "close":
                    s.data.close()
                else:
                    s.data.reset()
            # (pipe: the next command travels in the same segment as the ABOR)
            s.ctl.send(b"ABOR\r\n" + (case["pipe"].encode() + b"\r\n" if case.get("pipe") else b""))

        def on_event(nev):
            if state["armed"] and not state["sent"] and nev == k:
                inject()

        w.net.on_event = on_event
        verb_idx = None
        for i, e in enumerate(script):
            if verb_idx is None and e.split(" ")[0] in ("RETR", "STOR", "APPE", "LIST", "MLSD"):
                verb_idx = len(s.transcript)
                chooser.active = True
                state["armed"] = True
                state["mark"] = len(s.ctl.p.total)
                w.net.n_events = 0
                if k == 0:
                    rig.ev(0, e + "!")
                    state["early"] = True
                    state["sent"] = True
                    with Running(w.loop):
                        s.ctl.send(b"ABOR\r\n")
                    w.settle()
                    rig.collect()
                    continue
            rig.ev(0, e)
        w.settle()
        rig.collect()
        nev_total = w.net.n_events
        if not state["sent"]:
            if case.get("probe"):
                return {"problems": [], "reached": False, "events": nev_total, "trace": "", "outcome": ""}
            # position beyond the last event: ABOR after everything has finished
            with Running(w.loop):
                s.ctl.send(b"ABOR\r\n" + (case["pipe"].encode() + b"\r\n" if case.get("pipe") else b""))
            state["sent"] = True
            w.settle()
            rig.collect()
        chooser.active = False
        codes = [c for _, r in s.transcript[verb_idx:] for c, _ in r]
        sig = {"verb": verb, "data_conn": data_conn}
        if s.closed():
            problems.append({"kind": "session-closed-by-abort", "codes": codes})
        if case.get("pipe") and state["sent"] and not case.get("probe"):
            # replies come in the order of the commands: the ABOR's answer, then the pipelined command's
            tail = {"SYST": "215", "ABOR": "226", "PWD": "257"}[case["pipe"]]
            if codes[-1:] != [tail]:
                problems.append({"kind": "pipelined-command-answered-out-of-order-or-not-at-all", "pipe": case["pipe"],
                                 "codes": codes})
            else:
                codes = codes[:-1]
        why = acceptable(codes, state["early"], allow_running=case.get("noread", False))
        if why and case.get("giveup"):
            # the transfer may have failed on the lost data connection by itself: 1xx, one failure (or completion)
            # reply, and ABOR's single 226 - in either order of the last two
            L = list(codes)
            if (len(L) == 3 and L[0][0] == "1" and sorted(x[0] for x in L[1:]) in (["2", "4"], ["2", "2"], ["2", "5"])
                    and "226" in L[1:]):
                why = None
        if why:
            problems.append({"kind": "abor-answer", "why": why, "codes": codes})
        # data connection closed by the server when a transfer had been started
        if any(c.startswith("1") for c in codes) and s.data is not None and not case.get("noread"):
            spare_t = state["spare"].t if state.get("spare") is not None else None     # open on purpose
            mine = [t for t in w.net.all_transports if t.side == "server" and t.accepted and t.held()
                    and t.get_extra_info("sockname")[1] != 2121 and t.peer is not spare_t]
            if mine:
                problems.append({"kind": "data-connection-open-after-abort", "codes": codes})
        # only a prefix delivered / stored
        snap = rig.snapshot()
        still_running = bool(codes) and codes[-1].startswith("1")     # ABOR overtook the verb: nothing was aborted
        if case.get("noread") and any(c.startswith("1") for c in codes) and s.data is not None and not still_running:
            # the data connection is closed although the peer does not take what was written already; the ABOR is
            # answered all the same
            spare_t = state["spare"].t if state.get("spare") is not None else None     # open on purpose
            mine = [t for t in w.net.all_transports if t.side == "server" and t.accepted and t.held()
                    and t.get_extra_info("sockname")[1] != 2121 and t.peer is not spare_t]
            if mine:
                problems.append({"kind": "data-connection-open-after-abort", "codes": codes})
        if case.get("rest"):
            pass        # (what a restarted transfer stores / delivers is C01's and C18's business)
        elif verb == "RETR" and s.data is not None:
            got = s.data.received
            if not payload(size).startswith(got):
                problems.append({"kind": "retr-not-a-prefix", "got": got.decode("latin-1")})
        if not case.get("rest") and verb == "STOR" and "/new" in snap and not payload(size).startswith(snap["/new"]):
            problems.append({"kind": "stor-not-a-prefix", "got": snap["/new"].decode("latin-1")})
        if verb == "APPE" and not case.get("rest"):
            cur = snap.get("/old")
            if cur is None or not (cur.startswith(b"OLD") and payload(size).startswith(cur[3:])):
                problems.append({"kind": "appe-not-a-prefix", "got": repr(cur)})
        if spy.leaked() and not (case.get("noread") and still_running):
            problems.append({"kind": "file-handle-open", "paths": spy.leaked()})
        if case.get("close_fails"):
            spy.fail_from = None
        # follow-ups
        fu = case["followup"]
        if not s.closed():
            if fu == "pwd":
                r = rig.ev(0, "PWD")
                if [c for c, _ in (r or [])] != ["257"]:
                    problems.append({"kind": "followup-pwd", "codes": [c for c, _ in (r or [])]})
            elif fu == "again":
                rig.ev(0, "EPSV")
                rig.ev(0, "@data")
                r = rig.ev(0, "RETR f")
                cs = [c for c, _ in (r or [])]
                if cs != ["150", "226"] or s.data is None or s.data.received != payload(size):
                    problems.append({"kind": "followup-transfer", "codes": cs,
                                     "data": None if s.data is None else s.data.received.decode("latin-1")})
                rig.ev(0, "PASV")
                rig.ev(0, "@data")
                r = rig.ev(0, "STOR again")
                rig.ev(0, "@dsend hello")
                r2 = rig.ev(0, "@dclose")
                cs = [c for c, _ in (r or [])] + [c for c, _ in (r2 or [])]
                if cs != ["150", "226"] or rig.snapshot().get("/again") != b"hello":
                    problems.append({"kind": "followup-upload", "codes": cs})
            elif fu == "pasv-list":
                rig.ev(0, "PASV")
                rig.ev(0, "@data")
                r = rig.ev(0, "LIST d")
                cs = [c for c, _ in (r or [])]
                if cs != ["150", "226"] or s.data is None or s.data.received.count(b"\r\n") != 2:
                    problems.append({"kind": "followup-list", "codes": cs})
            elif fu == "reuse":
                # no new PASV/EPSV: the next transfer uses the connection made in advance
                # (if the server turned that connection away the transfer is answered 425 and the session lives on)
                d2 = state.get("spare")
                if d2 is not None:
                    s.data = d2
                    r = rig.ev(0, "RETR f")
                    cs = [c for c, _ in (r or [])]
                    served = cs == ["150", "226"] and bytes(d2.received) == payload(size)
                    turned_away_ok = cs in (["425"], ["150", "425"]) and not state.get("spare_must_be_kept")
                    if not (served or turned_away_ok) or s.closed():
                        problems.append({"kind": "followup-transfer-on-connection-made-in-advance", "codes": cs,
                                         "data": bytes(d2.received).decode("latin-1"), "session_closed": s.closed()})
                    r = rig.ev(0, "PWD")
                    if [c for c, _ in (r or [])] != ["257"]:
                        problems.append({"kind": "followup-pwd", "codes": [c for c, _ in (r or [])]})
            elif fu == "quit":
                r = rig.ev(0, "QUIT")
                if [c for c, _ in (r or [])] != ["221"] or not s.closed():
                    problems.append({"kind": "followup-quit", "codes": [c for c, _ in (r or [])]})
        s.peer.vanish()
        w.settle(0.75)
        for p in ledger.released_problems(w, rig.server, spy=spy):
            problems.append(p)
        for p in problems:
            p.update(sig)
        return {"problems": problems, "reached": True, "events": nev_total, "trace": report.fp(w.net.trace),
                "outcome": report.fp([verb, codes])}
    finally:
        rig.close()


def _work(item):
    case, bound, kinds = item
    part = report.Partial()
    try:
        cap = 6000 if bound <= 1 else 60000
        for ch, res in explore(lambda c: run_abort(case, c), bound, kinds=kinds, max_exec=cap):
            if ch is None:
                part.caps.append({"case": case, "cap": cap})
                break
            part.evaluations += 1
            part.traces += 1
            part.transitions += res["events"]
            part.states.add(res["trace"])
            part.nontrivial.add(res["trace"])
            part.outcomes[res["outcome"]] += 1
            part.counters[f"exec_dev{ch.deviations}"] += 1
            part.sample({"case": case, "choices": ch.choices}, limit=2)
            for p in res["problems"]:
                sig = {"kind": p["kind"], "verb": p.get("verb"), "data_conn": p.get("data_conn")}
                part.violation(sig, {"problem": p, "case": case, "deviations": ch.deviations},
                               replay={"case": case, "choices": ch.choices, "kinds": sorted(kinds or [])})
    except ReplayDivergence as exc:
        part.infra.append(f"replay divergence in {case}: {exc}")
    return part


def build_items(tier):
    items = []
    kinds = ["early", "order"]
    backs = ["memory", "slow"]
    for verb in ("RETR", "STOR", "APPE", "LIST", "MLSD"):
        sizes = SIZES if verb in ("RETR", "STOR", "APPE") else [B]
        for size in sizes:
            for backend in backs:
                for data_conn in (True, False):
                    if not data_conn and size != B:
                        continue
                    probe = {"verb": verb, "size": size, "k": 10 ** 9, "backend": backend, "followup": "pwd",
                             "data_conn": data_conn, "probe": True}
                    n = run_abort(probe, Chooser())["events"]
                    for k in range(0, n + 2):
                        for fi, fu in enumerate(FOLLOWUPS):
                            if tier == "quick" and fi != (k % len(FOLLOWUPS)) and fu != "again":
                                continue
                            case = {"verb": verb, "size": size, "k": k, "backend": backend, "followup": fu,
                                    "data_conn": data_conn}
                            bound = (3 if tier != "quick" else 1) if (fu == "again" or tier != "quick") else 0
                            if tier == "quick" and backend == "slow" and size not in (B, 3 * B):
                                bound = 0
                            items.append((case, bound, kinds))
                            if data_conn and verb in ("RETR", "LIST", "MLSD") and size in (B, 3 * B) and fu in ("pwd", "again"):
                                items.append((dict(case, noread=True), 0, kinds))
    # the executor-based backend (ABOR racing with a file operation that is in flight)
    for verb in ("RETR", "STOR", "APPE", "LIST"):
        for size in ((B, 3 * B) if verb != "LIST" else (B,)):
            probe = {"verb": verb, "size": size, "k": 10 ** 9, "backend": "async", "followup": "pwd", "data_conn": True,
                     "probe": True}
            n = run_abort(probe, Chooser())["events"]
            for k in range(0, n + 2):
                case = {"verb": verb, "size": size, "k": k, "backend": "async", "followup": "again" if k % 2 else "pwd",
                        "data_conn": True}
                items.append((case, 1, kinds))
    # a speed-limited server (the worker is sitting out a throttle pause) and the next command right behind the ABOR
    for verb in ("RETR", "STOR", "LIST"):
        for throttle in ("write", "read", None):
            for pipe in ("SYST", "ABOR", "PWD"):
                size = 3 * B
                probe = {"verb": verb, "size": size, "k": 10 ** 9, "backend": "memory", "followup": "pwd", "data_conn": True,
                         "probe": True, "throttle": throttle}
                n = run_abort(probe, Chooser())["events"]
                for k in range(1, n + 2):
                    case = {"verb": verb, "size": size, "k": k, "backend": "memory", "followup": "again" if k % 2 else "pwd",
                            "data_conn": True, "throttle": throttle, "pipe": pipe}
                    items.append((case, 1 if tier == "quick" else 2, kinds))
    # ... and on the executor-based backend: the aborted worker is still closing its file when the next command is read
    for verb in ("RETR", "STOR", "LIST"):
        for pipe in ("SYST", "ABOR", "PWD"):
            size = 3 * B
            probe = {"verb": verb, "size": size, "k": 10 ** 9, "backend": "async", "followup": "pwd", "data_conn": True,
                     "probe": True}
            n = run_abort(probe, Chooser())["events"]
            for k in range(1, n + 2):
                case = {"verb": verb, "size": size, "k": k, "backend": "async", "followup": "again" if k % 2 else "pwd",
                        "data_conn": True, "pipe": pipe}
                items.append((case, 1 if tier == "quick" else 2, kinds))
    # a command that ended in 451 earlier in the session
    for verb in ("RETR", "STOR", "LIST"):
        for data_conn in (True, False):
            size = 3 * B
            probe = {"verb": verb, "size": size, "k": 10 ** 9, "backend": "memory", "followup": "pwd", "data_conn": data_conn,
                     "probe": True, "prefail": True}
            n = run_abort(probe, Chooser())["events"]
            for k in range(0, n + 2):
                case = {"verb": verb, "size": size, "k": k, "backend": "memory", "followup": "again" if k % 2 else "pwd",
                        "data_conn": data_conn, "prefail": True}
                items.append((case, 0 if tier == "quick" else 1, kinds))
    # closing the file takes long (longer than path_timeout), the next command right behind the ABOR
    for verb in ("RETR", "STOR", "APPE"):
        for pipe in ("SYST", "ABOR", "PWD", None):
            size = 3 * B
            probe = {"verb": verb, "size": size, "k": 10 ** 9, "backend": "memory", "followup": "pwd", "data_conn": True,
                     "probe": True, "slow_close": True}
            n = run_abort(probe, Chooser())["events"]
            for k in range(1, n + 2):
                case = {"verb": verb, "size": size, "k": k, "backend": "memory", "followup": "again" if k % 2 else "pwd",
                        "data_conn": True, "slow_close": True, **({"pipe": pipe} if pipe else {})}
                items.append((case, 1 if tier == "quick" else 2, kinds))
    # the backend fails when the transfer's file is closed (also when it is closed because of the ABOR)
    for verb in ("RETR", "STOR", "APPE"):
        for backend in ("memory", "async"):
            size = 3 * B
            probe = {"verb": verb, "size": size, "k": 10 ** 9, "backend": backend, "followup": "pwd", "data_conn": True,
                     "probe": True}
            n = run_abort(probe, Chooser())["events"]
            for k in range(1, n + 2):
                case = {"verb": verb, "size": size, "k": k, "backend": backend, "followup": "again" if k % 2 else "pwd",
                        "data_conn": True, "close_fails": True}
                items.append((case, 1 if tier == "quick" else 2, kinds))
    # the client drops its data connection (close / reset) right before it says ABOR
    for verb in ("RETR", "STOR", "LIST"):
        for giveup in ("close", "reset"):
            for backend in ("memory", "slow"):
                size = 3 * B
                probe = {"verb": verb, "size": size, "k": 10 ** 9, "backend": backend, "followup": "pwd", "data_conn": True,
                         "probe": True}
                n = run_abort(probe, Chooser())["events"]
                for k in range(1, n + 2):
                    case = {"verb": verb, "size": size, "k": k, "backend": backend, "followup": "again" if k % 2 else "pwd",
                            "data_conn": True, "giveup": giveup}
                    items.append((case, 1 if tier == "quick" else 2, kinds))
    # a restart offset before the transfer (executor backend: one more file operation between taking the data
    # connection and using it)
    for verb in ("RETR", "APPE"):
        probe = {"verb": verb, "size": 3 * B, "k": 10 ** 9, "backend": "async", "followup": "pwd", "data_conn": True,
                 "probe": True, "rest": 2}
        n = run_abort(probe, Chooser())["events"]
        for k in range(0, n + 2):
            case = {"verb": verb, "size": 3 * B, "k": k, "backend": "async", "followup": "again" if k % 2 else "pwd",
                    "data_conn": True, "rest": 2}
            items.append((case, 1 if tier == "quick" else 3, kinds))
    # a second data connection made in advance for the next transfer, which then does without a new PASV/EPSV
    for verb in ("RETR", "STOR", "LIST"):
        size = 3 * B
        probe = {"verb": verb, "size": size, "k": 10 ** 9, "backend": "memory", "followup": "pwd", "data_conn": True,
                 "probe": True, "spare": True}
        n = run_abort(probe, Chooser())["events"]
        for k in range(1, n + 2):
            case = {"verb": verb, "size": size, "k": k, "backend": "memory", "followup": "reuse", "data_conn": True,
                    "spare": True}
            items.append((case, 3 if tier != "quick" else 0, kinds))
    # two transfer commands outstanding when the ABOR is handled (pipelined; the second waits for a data connection
    # of its own, or both do)
    for first, second in (("RETR f", "RETR f"), ("RETR f", "LIST d"), ("LIST d", "RETR f"), ("MLSD d", "MLSD d")):
        for backend in ("memory", "async"):
            for data_conn, noread in ((True, False), (True, True), (False, False)):
                base = {"double": True, "first": first, "second": second, "backend": backend, "data_conn": data_conn,
                        "noread": noread, "verb": first.split(" ")[0], "size": 3 * B, "followup": "again"}
                n = run_abort(dict(base, k=10 ** 9, probe=True), Chooser())["events"]
                for k in range(0, n + 2):
                    items.append((dict(base, k=k), 1 if tier == "quick" else 2, kinds))
    return items


def run_nothing(tier):
    """ABOR with no transfer at all, in every login state reachable by a short history"""
    part = report.Partial()
    for hist in ([], ["PWD"], ["EPSV"], ["EPSV", "@data"], ["REST 2"], ["RNFR f"], ["TYPE A"]):
        rig = Rig(n_sessions=1, tree=tree(4), server_kwargs={"block_size": B})
        try:
            rig.ev(0, "@connect")
            rig.ev(0, "USER anonymous")
            for e in hist:
                rig.ev(0, e)
            r = rig.ev(0, "ABOR")
            codes = [c for c, _ in (r or [])]
            part.evaluations += 1
            part.transitions += rig.world.net.n_events
            part.states.add(report.fp(["nothing", hist]))
            part.nontrivial.add(report.fp(["nothing", hist]))
            part.outcomes[report.fp(["nothing", codes])] += 1
            r2 = rig.ev(0, "PWD")
            if codes != ["226"] or [c for c, _ in (r2 or [])] != ["257"]:
                part.violation({"kind": "abor-without-transfer", "history": hist}, {"codes": codes})
        finally:
            rig.close()
    return part


def client_abort_case(case):
    """the library's own client: a transfer is opened as a stream, j blocks are moved, Client.abort() is called
    (waiting for the answer, or not waiting and reading the answer by hand afterwards); then the client is used on.
    The file is long and the window lock-step, so the server cannot have finished when the ABOR arrives."""
    from vf.world import Hang
    direction, j, wait, nblocks, backend = case["direction"], case["j"], case["wait"], case["nblocks"], case["backend"]
    part = report.Partial()
    data = payload(nblocks * B)
    tree_ = {"big": data, "keep": b"keep-me", "d": {f"e{i:02d}": b"" for i in range(12)}}
    bk = {"memory": dict(backend="memory"), "slow": dict(backend="slow", delay=0.125), "async": dict(backend="async")}[backend]
    rig = Rig(n_sessions=0, tree=tree_, window=1, server_kwargs={"block_size": B, "wait_future_timeout": 1}, **bk)
    problems = []
    got = bytearray()
    out = {}
    try:
        w = rig.world
        a = w.aioftp

        async def main():
            c = a.Client(path_io_factory=a.MemoryPathIO)
            await c.connect("127.0.0.1", 2121)
            await c.login()
            if direction == "download":
                stream = await c.download_stream("/big")
                for _ in range(j):
                    got.extend(await stream.read(B))
            elif direction == "list":
                stream = await c.get_stream("LIST /d", "1xx")
                for _ in range(j):
                    got.extend(await stream.readline())
            else:
                stream = await c.upload_stream("/new") if direction == "upload" else await c.append_stream("/keep")
                for i in range(j):
                    await stream.write(data[i * B:(i + 1) * B])
            if wait:
                await c.abort()
            else:
                await c.abort(wait=False)
                code, info = await c.command(None, "226", "426")
                out["by_hand"] = str(code)
            stream.close()
            # the client is in step with the server: every following call gets its own answer
            out["pwd"] = str(await c.get_current_directory())
            out["exists"] = await c.exists("/keep")
            async with c.download_stream("/big") as st:
                out["again"] = await st.read()
            async with c.upload_stream("/second") as st:
                await st.write(b"second")
            out["pwd2"] = str(await c.get_current_directory())
            await c.quit()

        try:
            w.run(main())
        except Hang:
            problems.append({"kind": "client-abort-hangs"})
        except Exception as exc:  # noqa
            problems.append({"kind": "client-abort-raises", "exc": repr(exc)[:300]})
        w.settle(0)
        snap = rig.snapshot()
        if not problems:
            if out.get("pwd") != "/" or out.get("pwd2") != "/" or out.get("exists") is not True:
                problems.append({"kind": "client-out-of-step-after-abort", "out": {k: repr(v)[:60] for k, v in out.items()}})
            if out.get("again") != data:
                problems.append({"kind": "followup-transfer", "got": len(out.get("again") or b"")})
            if snap.get("/second") != b"second":
                problems.append({"kind": "followup-upload", "stored": repr(snap.get("/second"))[:60]})
        if direction == "download" and not data.startswith(bytes(got)):
            problems.append({"kind": "received-not-a-prefix", "got": bytes(got).decode("latin-1")})
        if direction == "upload":
            stored = snap.get("/new")
            if stored is not None and not data[:j * B].startswith(stored):
                problems.append({"kind": "stored-not-a-prefix", "stored": repr(stored)[:80]})
        if direction == "append":
            stored = snap.get("/keep")
            if stored is None or not (b"keep-me" + data[:j * B]).startswith(stored) or not stored.startswith(b"keep-me"):
                problems.append({"kind": "stored-not-a-prefix", "stored": repr(stored)[:80]})
        if snap.get("/big") != data:
            problems.append({"kind": "source-file-changed"})
        part.evaluations += 1
        part.traces += 1
        part.transitions += w.net.n_events
        tr = report.fp(w.net.trace)
        part.states.add(tr)
        part.nontrivial.add(tr)
        part.outcomes[report.fp(["client-abort", direction, wait, sorted(p["kind"] for p in problems)])] += 1
        part.counters["client_abort_cases"] += 1
        for p in problems:
            part.violation({"kind": p["kind"], "verb": "Client.abort:" + direction, "wait": wait},
                           {"problem": p, "case": case}, replay={"client_abort": case})
    finally:
        rig.close()
    return part


def client_abort_items(tier):
    items = []
    for direction in ("download", "upload", "append", "list"):
        for wait in (True, False):
            for backend in ("memory", "slow") + (("async",) if tier != "quick" else ()):
                for j in range(0, 4):
                    if direction == "list" and j > 2:
                        continue
                    items.append({"direction": direction, "j": j, "wait": wait, "nblocks": 12, "backend": backend})
    return items


def run(tier, seed, t0):
    items = build_items(tier)
    if seed:
        k = seed % len(items)
        items = items[k:] + items[:k]
    part = report.merge_all(report.pmap(_work, items) + [run_nothing(tier)] + report.pmap(client_abort_case, client_abort_items(tier)))
    bounds = {"verbs": ["RETR", "STOR", "APPE", "LIST", "MLSD"], "sizes": SIZES, "block_size": B,
              "backends": ["memory", "slow(0.125s completion latency)", "AsyncPathIO (every operation an executor job)"],
              "abort_positions": "k=0 (same segment as the verb) and after every network event k=1..N+1 counted from "
                                 "the transfer verb, with and without a data connection",
              "throttled": "server write / read limit of one block per second, next command (SYST, ABOR, PWD) in the ABOR's segment", "followups": FOLLOWUPS + ["reuse: next transfer over a data connection made in advance, no new PASV"], "data_peer": ["reading", "connected but not reading (RETR/LIST/MLSD)", "closes / resets its data connection right before ABOR"], "deviation_bound": 1 if tier == "quick" else 3, "send_window": "lock-step", "cases": len(items),
              "two_outstanding": "RETR+RETR, RETR+LIST, LIST+RETR, MLSD+MLSD in one segment x {data connection, non-reading data peer, none} x "
                                 "{memory, AsyncPathIO}, ABOR at every event position, wait_future_timeout 30 s"}
    return report.finish(
        PID, tier, seed, "model_checking", part, t0,
        rule="case = (verb, size, abort position, backend, follow-up); every schedule with <= bound deviations from the "
             "verb on; all executions contain an ABOR so all are non-trivial; distinct by delivery-trace hash",
        bounds=bounds,
        assumptions=["environment model SimLoop/SimNet"])


def replay(path):
    data = json.loads(open(path).read())
    rp = data["replay"]
    if "client_abort" in rp:
        part = client_abort_case(rp["client_abort"])
        print(json.dumps([v["detail"] for v in part.violations], indent=1, default=repr))
        return 1 if part.violations else 0
    res = run_abort(rp["case"], Chooser(rp["choices"], rp.get("kinds") or None))
    print(json.dumps({"case": rp["case"], "choices": rp["choices"], "problems": res["problems"]}, indent=1, default=repr))
    return 1 if res["problems"] else 0
