"""C07 Listings and stats report the backend's truth (MLSD, MLST, LIST fallback).

E3 (function plane): parse_ls_date(build_list_mtime(m, now), now) for 'now' at
every structural boundary of several years and m over [now-400d, now+3d] (every
minute around the boundaries), under TZ=UTC and a DST zone.  Wire level: all
entry sets over 3 names x types x boundary sizes/mtimes listed through MLSD,
MLST, raw LIST and the stat() fallback.  DESIGN.md §5 C07.
"""
import calendar
import datetime
import itertools
import json
import os
import time

from vf import report, backends
from vf.rig import Rig
from vf.world import Hang, World

PID = "C07"
HALF = 15778476
DAY = 86400
ZONES = {"UTC": "UTC0", "CET-DST": "CET-1CEST,M3.5.0,M10.5.0/3"}


def set_tz(zone):
    os.environ["TZ"] = ZONES[zone]
    time.tzset()


def nows(years):
    out = []
    for y in years:
        for mo in range(1, 13):
            last = calendar.monthrange(y, mo)[1]
            out.append((y, mo, 1, 0, 0))
            out.append((y, mo, last, 23, 59))
        out += [(y, 2, 28, 12, 0), (y, 3, 1, 0, 0), (y, 6, 15, 12, 30), (y, 3, 31, 2, 30), (y, 10, 27, 2, 30)]
        if calendar.isleap(y):
            out.append((y, 2, 29, 13, 37))
    return out


def expected(m, now):
    lt = time.localtime(m)
    if now - HALF < m <= now:
        return time.strftime("%Y%m%d%H%M00", lt)
    return time.strftime("%Y%m%d000000", lt)


def m_values(now, dense):
    """mtimes (whole minutes + a few odd seconds) to try for this now"""
    lo, hi = now - 400 * DAY, now + 3 * DAY
    pts = set()
    stride = 67 * 60
    t = lo
    while t <= hi:
        pts.add(t)
        t += stride
    lt = time.localtime(now)
    year_start = time.mktime((lt.tm_year, 1, 1, 0, 0, 0, 0, 0, -1))
    feb = [time.mktime((y, 3, 1, 0, 0, 0, 0, 0, -1)) for y in (lt.tm_year - 1, lt.tm_year)]
    for centre in [now, now - HALF, year_start] + feb:
        width = 2 * DAY if dense else 6 * 3600
        t = centre - width
        t -= t % 60
        while t <= centre + width:
            if lo <= t <= hi:
                pts.add(t)
            t += 60
    pts |= {now - 1, now + 1, now - HALF + 1, now - HALF - 1, now - 59, now - 61}
    return sorted(pts)


def plane_work(item):
    zone, now_tuples, dense = item
    set_tz(zone)
    import aioftp
    build = aioftp.Server.build_list_mtime
    parse = aioftp.Client.parse_ls_date
    part = report.Partial()
    for nt in now_tuples:
        now = time.mktime(nt + (0, 0, 0, -1))
        now_dt = datetime.datetime.fromtimestamp(now)
        exempt = 0
        for m in m_values(now, dense):
            part.evaluations += 1
            if abs((now - m) - HALF) < DAY:
                exempt += 1
                continue
            s = build(m, now)
            try:
                got = parse(s, now=now_dt)
            except Exception as exc:
                got = "EXC " + repr(exc)
            want = expected(m, now)
            if got != want:
                form = "time" if ":" in s else "year"
                rel = "future" if m > now else ("recent" if now - m < HALF else "old")
                part.violation({"kind": "ls-date-roundtrip", "form": form, "mtime_is": rel, "zone": zone},
                               {"now": time.strftime("%Y-%m-%d %H:%M:%S", time.localtime(now)),
                                "mtime": time.strftime("%Y-%m-%d %H:%M:%S", time.localtime(m)), "ls": s, "got": got,
                                "want": want}, replay={"plane": [zone, list(nt), m]})
        part.states.add(report.fp([zone, nt]))
        part.nontrivial.add(report.fp([zone, nt]))
        part.counters["exempt_points"] += exempt
    part.transitions = part.evaluations
    part.sample({"zone": zone, "now": list(now_tuples[0]), "points": len(m_values(time.mktime(now_tuples[0] + (0, 0, 0, -1)), dense))},
                limit=1)
    return part


# -- wire level ------------------------------------------------------------------
NAMES = ["a", "b c", ".h"]
SIZES = [0, 1, 8191, 8192, 2 ** 31, 2 ** 40]
EPOCH = 1709217420.0          # 2024-02-29 14:37:00 UTC  (listing time of the wire cases)
MTIMES = [EPOCH, EPOCH - 59, EPOCH - 3600 * 5, EPOCH - HALF + 3 * DAY, EPOCH - HALF - 3 * DAY, EPOCH - 366 * DAY,
          EPOCH + 2 * DAY, 951782400.0, 0.0 + 86400 * 365,
          # fractional seconds (a file system with sub-second timestamps): the second is the one the instant lies in,
          # also within half a microsecond of the next one
          EPOCH - 3600 - 2 ** -21, 1704067200.0 - 2 ** -21, EPOCH - 86400 * 30 + 0.5, EPOCH - 120 + 59.999]


def wire_case(item):
    zone, configs = item
    set_tz(zone)
    part = report.Partial()
    for types, rot in configs:
        entries = {}
        for i, (name, ty) in enumerate(zip(NAMES, types)):
            if ty is None:
                continue
            size = SIZES[(rot + i) % len(SIZES)] if ty == "file" else 0
            mtime = MTIMES[(rot + 2 * i) % len(MTIMES)]
            entries[name] = (ty, size, mtime)
        problems, nev = wire_scenario(entries)
        part.evaluations += 1
        part.traces += 1
        part.transitions += nev
        k = report.fp([zone, sorted(entries.items())])
        part.states.add(k)
        if len(entries) >= 2:
            part.nontrivial.add(k)
        for p in problems[:1]:
            part.violation({"kind": p["kind"], "via": p["via"], "zone": zone}, {"problem": p, "entries": entries},
                           replay={"wire": [zone, {n: list(v) for n, v in entries.items()}]})
        part.sample({"zone": zone, "entries": {n: list(v) for n, v in entries.items()}}, limit=1)
    return part


def wire_scenario(entries):
    tree = {"dir": {n: ({} if ty == "dir" else b"") for n, (ty, sz, mt) in entries.items()}}
    spy = backends.SpyControl()
    rig = Rig(tree=tree, spy=spy, epoch0=EPOCH)
    w = rig.world
    a = w.aioftp
    # sparse stat: sizes up to 2**40 without real data
    override = {"/dir/" + n: (sz, mt) for n, (ty, sz, mt) in entries.items()}
    factory = rig.server.path_io_factory.factory
    orig_stat = factory.stat

    async def stat(self, path):
        st = await orig_stat(self, path)
        o = override.get(str(path))
        if o is not None:
            st = st._replace(st_size=o[0] if not str(st.st_mode).startswith("16") and (st.st_mode & 0o170000) != 0o040000 else st.st_size,
                             st_mtime=o[1])
        return st

    factory.stat = stat
    problems = []
    out = {}

    async def main():
        c = a.Client(path_io_factory=a.MemoryPathIO)
        await c.connect("127.0.0.1", 2121)
        await c.login()
        out["mlsd"] = [(str(p), dict(i)) for p, i in await c.list("/dir")]
        out["list"] = [(str(p), dict(i)) for p, i in await c.list("/dir", raw_command="LIST")]
        out["mlst"] = {n: dict(await c.stat("/dir/" + n)) for n in entries}
        rig.server.commands_mapping.pop("mlst")
        out["stat-fallback"] = {}
        for n in entries:
            out["stat-fallback"][n] = dict(await c.stat("/dir/" + n))
        rig.server.commands_mapping.pop("mlsd")
        out["stat-list-fallback"] = {n: dict(await c.stat("/dir/" + n)) for n in entries}
        await c.quit()

    try:
        try:
            w.run(main())
        except Hang:
            problems.append({"kind": "hang", "via": "?"})
        except Exception as exc:
            problems.append({"kind": "exception", "via": "?", "exc": repr(exc)[:300]})
        if problems:
            return problems, w.net.n_events
        now = EPOCH      # listing time == parse time == virtual epoch (no virtual time passes with this backend)

        def check(via, name, info, ls_format):
            ty, sz, mt = entries[name]
            if info.get("type") != ty:
                problems.append({"kind": "type", "via": via, "name": name, "got": info.get("type"), "want": ty})
            if ty == "file" and str(info.get("size")) != str(sz):
                problems.append({"kind": "size", "via": via, "name": name, "got": info.get("size"), "want": sz})
            if ls_format:
                if abs((now - mt) - HALF) >= DAY and info.get("modify") != expected(mt, now):
                    problems.append({"kind": "modify", "via": via, "name": name, "got": info.get("modify"),
                                     "want": expected(mt, now)})
            else:
                want = time.strftime("%Y%m%d%H%M%S", time.gmtime(mt))
                if info.get("modify") != want:
                    problems.append({"kind": "modify", "via": via, "name": name, "got": info.get("modify"), "want": want})

        for via, ls in (("mlsd", False), ("list", True)):
            got_names = sorted(p for p, i in out[via])
            want_names = sorted("/dir/" + n for n in entries)
            if got_names != want_names:
                problems.append({"kind": "names", "via": via, "got": got_names, "want": want_names})
                continue
            for p, info in out[via]:
                check(via, p[len("/dir/"):], info, ls)
        for via, ls in (("mlst", False), ("stat-fallback", False), ("stat-list-fallback", True)):
            for n, info in out[via].items():
                check(via, n, info, ls)
        return problems, w.net.n_events
    finally:
        factory.stat = orig_stat
        rig.close()


def late_listing(item):
    """the listing is announced (150) for the directory named when the verb arrived; a CWD before the data connection
    is made must not make the server list another directory"""
    zone, verb, arg = item
    set_tz(zone)
    from vf import model as M
    from vf.conform import Conf, step as conf_step, step_late
    part = report.Partial()
    tree = {"dir": {"a": b"1", "b_c": b"22", "sub": {"inner": b"x"}}, "other": {"zzz": b"", "yyy": {}}}
    conf = Conf([M.UserSpec(None)], tree)
    for cwd1, cwd2 in (("/dir", "/other"), ("/other", "/dir"), ("/dir", "/dir/sub"), ("/", "/dir")):
        rig = conf.new_rig()
        model = conf.new_model()
        try:
            rig.ev(0, "@connect")
            problems = []
            for line in ("USER anonymous", "EPSV", "CWD " + cwd1):
                pr, obs = conf_step(rig, model, line, conf)
                problems += pr
            if not problems:
                pr, obs = step_late(rig, model, f"{verb} {arg}".rstrip(), "CWD " + cwd2, conf)
                problems += pr
            part.evaluations += 1
            part.traces += 1
            part.transitions += 6
            k = report.fp(["late-listing", zone, verb, arg, cwd1, cwd2])
            part.states.add(k)
            part.nontrivial.add(k)
            for p in problems[:1]:
                part.violation({"kind": p["kind"], "via": verb.lower(), "late_data": True},
                               {"problem": p, "cwd1": cwd1, "cwd2": cwd2, "arg": arg}, replay={"late": list(item)})
        finally:
            rig.close()
    return part


def aged_listing(item):
    """the LIST verb arrives, the data connection is made `gap` seconds later and an entry is created in between:
    every line is dated against the time the listing is produced, so a just-created entry keeps minute precision"""
    zone, gap, when = item
    set_tz(zone)
    import aioftp
    part = report.Partial()
    rig = Rig(tree={"dir": {"old": b"1"}}, n_sessions=2, epoch0=EPOCH, server_kwargs={"wait_future_timeout": 10000},
              mtime=EPOCH - 3 * DAY)
    problems = []
    try:
        w = rig.world
        for i in (0, 1):
            rig.ev(i, "@connect", advance=0)
            rig.ev(i, "USER anonymous", advance=0)
        rig.ev(0, "PASV", advance=0)
        rig.ev(0, "LIST dir", advance=0)
        w.advance_to(w.loop.time() + when)
        rig.ev(1, "MKD /dir/fresh", advance=0)
        created = w.wall()
        w.advance_to(w.loop.time() + gap - when)
        rig.ev(0, "@data", advance=0)
        w.settle(5)
        rig.collect()
        s0 = rig.sessions[0]
        raw = s0.data.received if s0.data is not None else b""
        now = w.wall()
        client = aioftp.Client(path_io_factory=aioftp.MemoryPathIO)
        got = {}
        for line in raw.split(b"\r\n"):
            if line:
                p_, info = client.parse_list_line(line + b"\r\n")
                got[str(p_)] = info
        want = expected(created, now)
        if "fresh" not in got:
            problems.append({"kind": "names", "via": "list", "got": sorted(got), "raw": raw.decode("latin-1")})
        elif abs((now - created) - HALF) >= DAY and got["fresh"].get("modify") != want:
            problems.append({"kind": "modify", "via": "list", "name": "fresh", "got": got["fresh"].get("modify"),
                             "want": want, "line": [l for l in raw.decode("latin-1").split("\r\n") if "fresh" in l]})
        part.evaluations += 1
        part.traces += 1
        part.transitions += w.net.n_events
        k = report.fp(["aged-listing", zone, gap, when])
        part.states.add(k)
        part.nontrivial.add(k)
        for p in problems[:1]:
            part.violation({"kind": p["kind"], "via": "list", "late_data": True, "entry_created_while_waiting": True},
                           {"problem": p, "gap": gap, "when": when}, replay={"aged": list(item)})
    finally:
        rig.close()
    return part


def cross_session(item):
    """what one session learns is the backend's truth *now*: another session replaces a file / a directory between two
    looks (delete + upload, upload + rename into place, rmdir + mkdir)"""
    backend, how = item
    part = report.Partial()
    rig = Rig(tree={"dir": {"f": b"12345", "box": {"first": b"1"}}}, backend=backend, epoch0=EPOCH)
    w = rig.world
    a = w.aioftp
    problems = []

    async def look(c, tag, want_size, want_box):
        st = await c.stat("/dir/f")
        if int(st["size"]) != want_size:
            problems.append({"kind": "stale-stat", "via": "mlst", "when": tag, "got": st.get("size"), "want": want_size})
        for raw in ("MLSD", "LIST"):
            ls = {str(p): i for p, i in await c.list("/dir", raw_command=raw)}
            if int(ls.get("/dir/f", {}).get("size", -1)) != want_size:
                problems.append({"kind": "stale-listing", "via": raw.lower(), "when": tag,
                                 "got": ls.get("/dir/f", {}).get("size"), "want": want_size})
            box = sorted(str(p) for p, i in await c.list("/dir/box", raw_command=raw))
            if box != want_box:
                problems.append({"kind": "stale-listing", "via": raw.lower(), "when": tag, "got": box, "want": want_box})

    async def main():
        c1 = a.Client(path_io_factory=a.MemoryPathIO)
        c2 = a.Client(path_io_factory=a.MemoryPathIO)
        for c in (c1, c2):
            await c.connect("127.0.0.1", 2121)
            await c.login()
        await look(c1, "before", 5, ["/dir/box/first"])
        if how == "delete-upload":
            await c2.remove("/dir/f")
            async with c2.upload_stream("/dir/f") as st:
                await st.write(b"123456789")
        elif how == "rename-into-place":
            async with c2.upload_stream("/dir/f.tmp") as st:
                await st.write(b"123456789")
            await c2.remove("/dir/f")
            await c2.rename("/dir/f.tmp", "/dir/f")
        else:
            async with c2.upload_stream("/dir/f") as st:          # plain overwrite
                await st.write(b"123456789")
        await c2.remove("/dir/box")
        await c2.make_directory("/dir/box")
        async with c2.upload_stream("/dir/box/second") as st:
            await st.write(b"2")
        await look(c1, "after", 9, ["/dir/box/second"])
        await look(c2, "after (the writer itself)", 9, ["/dir/box/second"])
        await c1.quit()
        await c2.quit()

    try:
        try:
            w.run(main())
        except Hang:
            problems.append({"kind": "hang", "via": "?"})
        except Exception as exc:
            problems.append({"kind": "exception", "via": "?", "exc": repr(exc)[:300]})
        part.evaluations += 1
        part.traces += 1
        part.transitions += w.net.n_events
        k = report.fp(["cross-session", backend, how])
        part.states.add(k)
        part.nontrivial.add(k)
        for p in problems[:1]:
            part.violation({"kind": p["kind"], "via": p["via"], "backend": backend, "how": how}, {"problem": p},
                           replay={"cross": list(item)})
    finally:
        rig.close()
    return part


def listing_during_change(item):
    """another session removes / creates a sibling while the listing is under way (lock-step data connection, so the
    listing worker is suspended between entries): every entry that exists from start to end is reported exactly once,
    nothing is invented; the entry that comes or goes may or may not be seen"""
    backend, verb, action, victim, k = item
    part = report.Partial()
    names = ["a", "b", "c", "d", "e"]
    rig = Rig(tree={"dir": {n: b"x" for n in names}}, backend=backend, n_sessions=2, window=1, epoch0=EPOCH)
    problems = []
    try:
        w = rig.world
        for i in (0, 1):
            rig.ev(i, "@connect")
            rig.ev(i, "USER anonymous")
        rig.ev(0, "EPSV")
        rig.ev(0, "@data")
        state = {"done": False}
        w.net.n_events = 0

        def on_event(nev):
            if not state["done"] and nev == k:
                state["done"] = True
                s1 = rig.sessions[1]
                s1.ctl.send((("DELE /dir/" + victim) if action == "delete" else ("MKD /dir/" + victim)) + "\r\n")

        w.net.on_event = on_event
        rig.ev(0, verb + " dir")
        w.settle()
        rig.collect()
        w.net.on_event = None
        s0 = rig.sessions[0]
        raw = s0.data.received if s0.data is not None else b""
        from vf.conform import parse_names
        got = parse_names(verb.lower(), raw)
        stable = [n for n in names if not (action == "delete" and n == victim)]
        allowed = set(names) | ({victim} if action == "create" else set())
        codes = [c for _, rr in s0.transcript[-2:] for c, _ in rr]
        if "226" in codes or "200" in codes:
            for n in stable:
                if got.count(n) != 1:
                    problems.append({"kind": "entry-that-exists-throughout-listed-%d-times" % got.count(n), "via": verb.lower(),
                                     "name": n, "got": got})
                    break
            extra = [n for n in got if n not in allowed]
            if extra:
                problems.append({"kind": "invented-entry", "via": verb.lower(), "got": got})
        part.evaluations += 1
        part.traces += 1
        part.transitions += w.net.n_events
        kk = report.fp(["listing-during-change", backend, verb, action, victim, k, state["done"]])
        part.states.add(kk)
        if state["done"]:
            part.nontrivial.add(kk)
        part.outcomes[report.fp(sorted(got))] += 1
        for p in problems[:1]:
            part.violation({"kind": p["kind"], "via": p["via"], "backend": backend, "concurrent": action},
                           {"problem": p, "victim": victim, "after_event": k}, replay={"during": list(item)})
    finally:
        rig.close()
    return part


def dash_names(item):
    """entries whose names begin with '-' (legal names, and what `ls` would take for switches), addressed by their bare
    relative name: LIST and MLSD report the same - the directory asked for"""
    backend, fallback = item
    part = report.Partial()
    tree = {"w": {"-old": {"inner": b"1", "-x": {}}, "-1": {"deep": b"22"}, "-la": b"file", "top": b"t"}}
    rig = Rig(tree=tree, backend=backend, epoch0=EPOCH)
    w = rig.world
    a = w.aioftp
    if fallback:
        rig.server.commands_mapping.pop("mlst")
        rig.server.commands_mapping.pop("mlsd")
    problems = []
    truth = {"-old": ["-old/-x", "-old/inner"], "-1": ["-1/deep"], "": ["-1", "-la", "-old", "top"]}

    async def main():
        c = a.Client(path_io_factory=a.MemoryPathIO)
        await c.connect("127.0.0.1", 2121)
        await c.login()
        await c.change_directory("/w")
        for arg, want in truth.items():
            for raw in (("LIST",) if fallback else ("MLSD", "LIST")):
                got = sorted(str(p_) for p_, i in await c.list(arg, raw_command=raw))
                if got != want:
                    problems.append({"kind": "names", "via": raw.lower(), "listed": arg, "got": got, "want": want})
        for name, ty in (("-old", "dir"), ("-la", "file"), ("-1", "dir")):
            st = await c.stat(name)
            if st.get("type") != ty:
                problems.append({"kind": "type", "via": "stat" + ("-list-fallback" if fallback else ""), "name": name,
                                 "got": st.get("type"), "want": ty})
        rec = sorted(str(p_) for p_, i in await c.list("", recursive=True, raw_command="LIST"))
        want = sorted(["-1", "-1/deep", "-la", "-old", "-old/-x", "-old/inner", "top"])
        if rec != want:
            problems.append({"kind": "names", "via": "list-recursive", "listed": "", "got": rec, "want": want})
        await c.quit()

    try:
        try:
            w.run(main())
        except Hang:
            problems.append({"kind": "hang", "via": "?"})
        except Exception as exc:
            problems.append({"kind": "exception", "via": "?", "exc": repr(exc)[:300]})
        part.evaluations += 1
        part.traces += 1
        part.transitions += w.net.n_events
        k = report.fp(["dash-names", backend, fallback])
        part.states.add(k)
        part.nontrivial.add(k)
        for p in problems[:1]:
            part.violation({"kind": p["kind"], "via": p["via"], "dash_names": True}, {"problem": p}, replay={"dash": list(item)})
    finally:
        rig.close()
    return part


MODES = [0o644, 0o755, 0o4755, 0o4644, 0o2755, 0o2644, 0o1777, 0o1770, 0o7777, 0o7000, 0o000, 0o111]


def mode_bits(item):
    """entries of a real directory carry every combination of permission bits (setuid / setgid / sticky, with and
    without the matching x): the ls-format line the server writes for them is one the client reads"""
    backend, kind = item
    import os
    part = report.Partial()
    names = {f"e{m:04o}": m for m in MODES}
    tree = {"dir": {n: ({"in": b"1"} if kind == "dir" else b"12345") for n in names}}
    rig = Rig(tree=tree, backend=backend, epoch0=EPOCH)
    w = rig.world
    a = w.aioftp
    problems = []
    for n, m in names.items():
        os.chmod(rig.base / "dir" / n, m)
    out = {}

    async def main():
        c = a.Client(path_io_factory=a.MemoryPathIO)
        await c.connect("127.0.0.1", 2121)
        await c.login()
        out["mlsd"] = [(str(p_), dict(i)) for p_, i in await c.list("/dir")]
        out["list"] = [(str(p_), dict(i)) for p_, i in await c.list("/dir", raw_command="LIST")]
        rig.server.commands_mapping.pop("mlst")
        rig.server.commands_mapping.pop("mlsd")
        out["stat-list-fallback"] = [("/dir/" + n, dict(await c.stat("/dir/" + n))) for n in names]
        await c.quit()

    try:
        try:
            w.run(main())
        except Hang:
            problems.append({"kind": "hang", "via": "?"})
        except Exception as exc:
            problems.append({"kind": "exception", "via": "list" if "mlsd" in out else "mlsd", "exc": repr(exc)[:300]})
        for via, got in out.items():
            if sorted(p_ for p_, _ in got) != sorted("/dir/" + n for n in names):
                problems.append({"kind": "names", "via": via, "got": sorted(p_ for p_, _ in got)})
                continue
            for p_, info in got:
                if info.get("type") != kind:
                    problems.append({"kind": "type", "via": via, "name": p_, "got": info.get("type"), "want": kind})
                if kind == "file" and str(info.get("size")) != "5":
                    problems.append({"kind": "size", "via": via, "name": p_, "got": info.get("size"), "want": 5})
        part.evaluations += 1
        part.traces += 1
        part.transitions += w.net.n_events
        k = report.fp(["mode-bits", backend, kind])
        part.states.add(k)
        part.nontrivial.add(k)
        for p in problems[:1]:
            part.violation({"kind": p["kind"], "via": p["via"], "mode_bits": True, "backend": backend}, {"problem": p},
                           replay={"modes": list(item)})
    finally:
        for n in names:
            try:
                os.chmod(rig.base / "dir" / n, 0o755)
            except OSError:
                pass
        rig.close()
    return part


def refused_first(item):
    """a listing that is refused (not logged in yet / login dropped by a re-USER) does not change what later listings
    on the same client report: exact UTC seconds through MLSD, as before"""
    how, = item
    part = report.Partial()
    mt = EPOCH - 59          # 14:36:01 - the ls format would carry 14:36
    rig = Rig(tree={"dir": {"f": b"12345", "sub": {}}}, epoch0=EPOCH, mtime=mt,
              users=lambda a, base: [a.User(base_path=base), a.User("bob", "pw", base_path=base)])
    w = rig.world
    a = w.aioftp
    problems = []
    out = {}

    async def main():
        c = a.Client(path_io_factory=a.MemoryPathIO)
        await c.connect("127.0.0.1", 2121)
        if how == "relogin-pending":
            await c.login()
            await c.command("USER bob", "331")
        for attempt in range(2):
            try:
                await c.list("/dir")
                out["refused"] = False
            except a.StatusCodeError:
                out["refused"] = True
        if how == "relogin-pending":
            await c.command("PASS pw", "230")
        else:
            await c.login()
        out["list"] = [(str(p_), dict(i)) for p_, i in await c.list("/dir")]
        out["recursive"] = [(str(p_), dict(i)) for p_, i in await c.list("/", recursive=True)]
        out["stat"] = dict(await c.stat("/dir/f"))
        await c.quit()

    try:
        try:
            w.run(main())
        except Hang:
            problems.append({"kind": "hang", "via": "?"})
        except Exception as exc:
            problems.append({"kind": "exception", "via": "?", "exc": repr(exc)[:300]})
        want = time.strftime("%Y%m%d%H%M%S", time.gmtime(mt))
        if not problems:
            if not out.get("refused"):
                problems.append({"kind": "names", "via": "refused-listing-was-served", "got": out})
            for via in ("list", "recursive"):
                for p_, info in out.get(via, []):
                    if info.get("modify") != want:
                        problems.append({"kind": "modify", "via": via + "-after-a-refused-listing", "name": p_,
                                         "got": info.get("modify"), "want": want})
            if out.get("stat", {}).get("modify") != want:
                problems.append({"kind": "modify", "via": "stat-after-a-refused-listing", "got": out.get("stat", {}).get("modify"),
                                 "want": want})
        part.evaluations += 1
        part.traces += 1
        part.transitions += w.net.n_events
        k = report.fp(["refused-first", how])
        part.states.add(k)
        part.nontrivial.add(k)
        for p in problems[:1]:
            part.violation({"kind": p["kind"], "via": p["via"], "refused_first": how}, {"problem": p}, replay={"refused": [how]})
    finally:
        rig.close()
    return part


def faulty_listing(item):
    """one backend call of the listing fails: the client must learn that the listing failed - a listing that is
    reported complete has every entry exactly once"""
    via, k = item
    part = report.Partial()
    tree = {"dir": {"a": b"1", "b c": b"22", ".h": {}, "z": b""}}
    spy = backends.SpyControl()
    rig = Rig(tree=tree, spy=spy, epoch0=EPOCH)
    w = rig.world
    a = w.aioftp
    out = {}

    async def main():
        c = a.Client(path_io_factory=a.MemoryPathIO)
        await c.connect("127.0.0.1", 2121)
        await c.login()
        spy.count = 0
        spy.fail_at = k
        try:
            out["names"] = sorted(str(p) for p, i in await c.list("/dir", raw_command=via))
        except (a.StatusCodeError, a.PathIOError, ConnectionError) as exc:
            out["error"] = repr(exc)[:120]
        spy.fail_at = None
        out["calls"] = spy.count
        out["again"] = sorted(str(p) for p, i in await c.list("/dir", raw_command=via))
        await c.quit()

    try:
        problems = []
        try:
            w.run(main())
        except Hang:
            problems.append({"kind": "hang", "via": via})
        except Exception as exc:
            problems.append({"kind": "exception", "via": via, "exc": repr(exc)[:300]})
        want = sorted("/dir/" + n for n in tree["dir"])
        if not problems:
            if "names" in out and out["names"] != want:
                problems.append({"kind": "listing-reported-complete-with-entries-missing", "via": via, "got": out["names"],
                                 "want": want, "failed_call": spy.failed})
            if out.get("again") != want:
                problems.append({"kind": "listing-after-a-failed-one", "via": via, "got": out.get("again"), "want": want})
        part.evaluations += 1
        part.traces += 1
        part.transitions += w.net.n_events
        kk = report.fp(["faulty-listing", via, k, bool(spy.failed)])
        part.states.add(kk)
        if spy.failed:
            part.nontrivial.add(kk)
        part.outcomes[report.fp([via, "error" in out])] += 1
        part.counters["faulty_listing_calls_" + via] = max(part.counters["faulty_listing_calls_" + via], out.get("calls", 0))
        for p in problems[:1]:
            part.violation({"kind": p["kind"], "via": via.lower(), "failed_op": spy.failed[0][1] if spy.failed else None},
                           {"problem": p}, replay={"faulty": [via, k]})
    finally:
        rig.close()
    return part


def wire_items(tier):
    configs = []
    rot = 0
    for types in itertools.product((None, "file", "dir"), repeat=3):
        for r in range(len(SIZES) if tier != "quick" else 3):
            configs.append((types, rot))
            rot += 1
    items = []
    for zone in ZONES:
        for i in range(0, len(configs), 6):
            items.append((zone, configs[i:i + 6]))
    return items


def dos_lines(item):
    """the second listing format the client's parser chain knows (DOS `dir` lines, what a Windows server sends): every
    well-formed line over the grid below comes back with exactly its name, type, size and time of day"""
    import datetime
    (year,) = item
    part = report.Partial()
    w = World()
    try:
        a = w.aioftp
        c = a.Client()
        names = ["file name.txt", "Documents", "a", "x  y", "1,024", "<DIR>", "PM", "05/01/2020", "-rw-r--r--"]
        sizes = [0, 5, 1024, 1234567, 2 ** 40]
        for month in range(1, 13):
            for day in (1, 9, 28, 29, 30, 31):
                try:
                    datetime.date(year, month, day)
                except ValueError:
                    continue
                for hour24 in range(24):
                    for minute in (0, 7, 59):
                        dt = datetime.datetime(year, month, day, hour24, minute)
                        stamp = dt.strftime("%m/%d/%Y  %I:%M ") + ("AM" if hour24 < 12 else "PM")
                        k = (month + day + hour24 + minute)
                        name = names[k % len(names)]
                        size = sizes[k % len(sizes)]
                        for is_dir in (False, True):
                            for grouped in (False, True):
                                mid = "<DIR>" if is_dir else (f"{size:,}" if grouped else str(size))
                                line = f"{stamp}    {mid:>14} {name}"
                                part.evaluations += 1
                                try:
                                    path, info = c.parse_list_line(line.encode())
                                except Exception as exc:  # noqa
                                    path, info = None, {"error": repr(exc)}
                                want = {"type": "dir" if is_dir else "file", "modify": dt.strftime("%Y%m%d%H%M%S")}
                                if not is_dir:
                                    want["size"] = str(size)
                                got = {k_: info.get(k_) for k_ in want} if isinstance(info, dict) else info
                                if path is None or str(path) != name or got != want:
                                    part.violation({"kind": "dos-line-misread", "field": next((k_ for k_ in want if got.get(k_) != want[k_]), "name")},
                                                   {"line": line, "got": [str(path), info], "want": [name, want]},
                                                   replay={"dos": [year]})
                                    if len(part.violations) > 5:
                                        return part
            part.states.add(report.fp(["dos", year, month]))
        part.nontrivial.add(report.fp(["dos", year]))
        part.transitions = part.evaluations
        part.sample({"dos_year": year, "example": line}, limit=1)
    finally:
        w.close()
    return part


def run(tier, seed, t0):
    years = range(2023, 2026) if tier == "quick" else range(2023, 2029)
    ns = nows(years)
    items = []
    for zone in ZONES:
        for i in range(0, len(ns), 3):
            items.append((zone, ns[i:i + 3], tier != "quick"))
    late = [("UTC", v, a) for v in ("MLSD", "LIST") for a in ("", ".", "sub", "..")]
    faulty = [(via, k) for via in ("MLSD", "LIST") for k in range(1, 16)]
    aged = [(zone, gap, when) for zone in ZONES for gap, when in ((90, 30), (90, 89), (3600, 1800), (700, 61), (10, 5))]
    parts = report.pmap(plane_work, items) + report.pmap(wire_case, wire_items(tier)) + report.pmap(late_listing, late) \
        + report.pmap(faulty_listing, faulty) + report.pmap(aged_listing, aged) \
        + report.pmap(listing_during_change, [(b, v, act, victim, k) for b in ("memory", "pathio", "async")
                                              for v in ("LIST", "MLSD")
                                              for act, victims in (("delete", ("a", "c", "e")), ("create", ("0", "cc", "z")))
                                              for victim in victims for k in range(1, 40 if tier == "quick" else 80, 2 if tier == "quick" else 1)]) \
        + report.pmap(dash_names, [(b, f) for b in ("memory", "pathio") for f in (False, True)]) \
        + report.pmap(refused_first, [("before-login",), ("relogin-pending",)]) \
        + report.pmap(dos_lines, [(y,) for y in ((1999, 2024) if tier == "quick" else (1980, 1999, 2000, 2023, 2024, 2038))]) \
        + report.pmap(mode_bits, [(b, k) for b in ("pathio", "async") for k in ("file", "dir")]) \
        + report.pmap(cross_session, [(b, h) for b in ("memory", "pathio", "async")
                                      for h in ("delete-upload", "rename-into-place", "overwrite")])
    part = report.merge_all(parts)
    set_tz("UTC")
    bounds = {"now_values": len(ns), "years": [years[0], years[-1]], "mtime_range": "now-400d .. now+3d",
              "dense_windows": "every minute within +-%s of now, now-half-year, New Year, Mar 1; stride 67 min elsewhere"
                               % ("2 d" if tier != "quick" else "6 h"),
              "listing_during_change": "5 entries, lock-step data connection; another session deletes / creates a sibling after "
                                       "every network event of the listing; LIST and MLSD, 3 backends",
              "dash_names": "entries named -old, -1, -la, -x listed / stat'ed by their bare relative name (MLSD, LIST, LIST-only server)",
              "refused_first": "a listing refused before login / while a re-login is pending, then listings and stat on the same client",
              "mode_bits": "files and directories of a real directory with modes %s (MLSD, LIST, stat on a LIST-only server)" % [oct(m) for m in MODES],
              "cross_session": "a second session replaces a file (3 ways) and a directory between two looks of the first; 3 backends",
              "aged_listing": "LIST verb, data connection 10 s .. 1 h later, an entry created in between (both zones)",
              "faulty_listing": "4 entries, MLSD and LIST, the k-th backend call of the listing fails, k=1..15",
              "zones": ZONES, "exempt": "|(now - mtime) - half year| < 1 day",
              "wire": {"names": NAMES, "sizes": SIZES, "mtimes": len(MTIMES), "via": ["MLSD", "raw LIST", "MLST",
                                                                                    "stat via MLSD", "stat via LIST"]}}
    return report.finish(
        PID, tier, seed, "model_checking", part, t0,
        rule="function plane: every (zone, now, mtime) grid point through the real formatter and the real parser against "
             "the local broken-down time truncated to minute (within the last half year) or day; wire level: every entry "
             "set/type assignment with rotating boundary sizes and mtimes through the real client and server with a "
             "sparse spy stat. Non-trivial = every grid 'now' / entry sets with >= 2 entries.",
        bounds=bounds,
        assumptions=["POSIX TZ strings (no tzdata needed)", "virtual clock: listing and parsing happen at the same 'now'"])


def replay(path):
    data = json.loads(open(path).read())
    rp = data.get("replay") or {}
    if "dos" in rp:
        part = dos_lines(tuple(rp["dos"]))
    elif "faulty" in rp:
        part = faulty_listing(tuple(rp["faulty"]))
    elif "dash" in rp:
        part = dash_names(tuple(rp["dash"]))
    elif "refused" in rp:
        part = refused_first(tuple(rp["refused"]))
    elif "modes" in rp:
        part = mode_bits(tuple(rp["modes"]))
    elif "during" in rp:
        part = listing_during_change(tuple(rp["during"]))
    elif "cross" in rp:
        part = cross_session(tuple(rp["cross"]))
    elif "aged" in rp:
        part = aged_listing(tuple(rp["aged"]))
    elif "late" in rp:
        part = late_listing(tuple(rp["late"]))
    elif "wire" in rp:
        zone, entries = rp["wire"]
        set_tz(zone)
        problems, nev = wire_scenario({n: tuple(v) for n, v in entries.items()})
        print(json.dumps(problems, indent=1, default=repr))
        return 1 if problems else 0
    elif "plane" in rp:
        zone, nt, m = rp["plane"]
        set_tz(zone)
        import aioftp
        now = time.mktime(tuple(nt) + (0, 0, 0, -1))
        s = aioftp.Server.build_list_mtime(m, now)
        try:
            got = aioftp.Client.parse_ls_date(s, now=datetime.datetime.fromtimestamp(now))
        except Exception as exc:
            got = "EXC " + repr(exc)
        want = expected(m, now)
        print(json.dumps({"ls": s, "got": got, "want": want}))
        return 1 if got != want else 0
    else:
        print(json.dumps(data.get("detail"), indent=1, default=repr))
        return 1
    print(json.dumps([v["detail"] for v in part.violations], indent=1, default=repr))
    return 1 if part.violations else 0
