"""C03 Nothing is served before a completed login; re-USER drops the old login.

E2: BFS over login histories (USER/PASS with known, unknown, password-less and
password-protected logins, right/wrong/empty passwords, plus state-carrying
verbs) to the closure of the login automaton for three user tables; from every
state every verb is probed in three spellings.  Oracle: the reference model
plus, while not logged in, no 1xx/2xx/3xx for any tree/cwd/data verb, zero
backend calls (spy), no new listener, no accepted data connection.
DESIGN.md §5 C03.
"""
import json

from vf import report, backends, model as M
from vf.conform import Conf, step as conf_step, connection_of
from vf.explore import explore
from vf.simloop import Chooser, ReplayDivergence

PID = "C03"
TREE = {"d": {"f": b"0123456789"}, "g": b"xyz", "home": {"h": b"hh"}}
TABLES = {
    "anon+alice+bob": [M.UserSpec(None), M.UserSpec("alice", None, home="/home"), M.UserSpec("bob", "pw", home="/d")],
    "alice+bob": [M.UserSpec("alice", None, home="/home"), M.UserSpec("bob", "pw", home="/d")],
    "bob-only": [M.UserSpec("bob", "pw", home="/d")],
}
# a table whose password-protected user has a connection limit of 1 that another session is holding
TABLES["bob-held-by-another-session"] = [M.UserSpec(None), M.UserSpec("bob", "pw", home="/d", maxconn=1)]
# a user whose password is the empty string has a password all the same
TABLES["empty-password"] = [M.UserSpec(None), M.UserSpec("eve", "", home="/d"), M.UserSpec("bob", "pw", home="/home")]
# a password with non-ASCII characters: look-alikes that differ only there are wrong passwords
TABLES["unicode-password"] = [M.UserSpec("carol", "pässwörd", home="/d"), M.UserSpec(None)]
# the anonymous account (any unknown name) can have a password as well - `python -m aioftp --pass x` builds this table
TABLES["anonymous-with-password"] = [M.UserSpec(None, "pw", home="/d")]
TABLES["anonymous-with-password+alice"] = [M.UserSpec("alice", None, home="/home"), M.UserSpec(None, "pw", home="/d")]
HELD = {"bob-held-by-another-session": "bob"}
LOGIN = ["USER anonymous", "USER alice", "USER bob", "USER nobody", "USER eve", "USER carol", "USER", "PASS pw", "PASS wrong", "PASS",
         "PASS pässwörd", "PASS påsswørd", "PASS p?ssw?rd", "PASS password",
         "PASV", "@data", "CWD /d", "RNFR /g", "REST 2",
         # login names with control characters / characters that are not printable: names like any other
         "USER bob\x1b[2J", "USER x\ty", "USER \x7f", "USER ali\u200bce",
         # the right password / a known name followed by a character that is no blank (though str.rstrip() takes it)
         "PASS pw\xa0", "PASS pw\x1f", "PASS pw\u3000", "USER bob\xa0"]
PROBES = ["PWD", "CWD /d", "CDUP", "MKD /new", "RMD /home", "DELE /g", "RNFR /g", "RNTO /h2", "MLST /g", "MLSD /", "LIST /",
          "RETR /g", "STOR /up", "APPE /g", "TYPE I", "PBSZ 0", "PROT P", "PASV", "EPSV", "ABOR", "REST 1", "SYST", "FOO",
          "@data"]
GUARDED = {"pwd", "cwd", "cdup", "mkd", "rmd", "dele", "rnfr", "rnto", "mlst", "mlsd", "list", "retr", "stor", "appe",
           "pasv", "epsv"}


def extra_probes():
    """verbs in the server's command table beyond the 25 known ones (a later version may have added some): probed like
    every other verb - nothing is served and the backend is not touched before a completed login"""
    import aioftp
    extra = sorted(set(aioftp.Server([aioftp.User()]).commands_mapping) - set(M.KNOWN_VERBS))
    return [f"{v.upper()} /g" for v in extra] + [v.upper() for v in extra]


def spellings(line):
    verb, sp, arg = line.partition(" ")
    if line.startswith("@"):
        return [line]
    out = [verb.upper() + sp + arg, verb.lower() + sp + arg,
           "".join(c.upper() if i % 2 == 0 else c.lower() for i, c in enumerate(verb)) + sp + arg]
    return out


def run_hist(table, hist, probe=None):
    conf = Conf(TABLES[table], TREE)
    spy = backends.SpyControl()
    rig = conf.new_rig(spy=spy, n_sessions=2 if table in HELD else 1)
    model = conf.new_model()
    problems = []
    try:
        if table in HELD:
            spy.armed = False
            rig.ev(1, "@connect")
            rig.ev(1, "USER " + HELD[table])
            rig.ev(1, "PASS pw")
            spy.armed = True
            model.others = {HELD[table]: 1}
        rig.ev(0, "@connect")
        w = rig.world
        steps = list(hist) + ([probe] if probe else [])
        for k, line in enumerate(steps):
            logged_before = model.logged
            calls_before = spy.count
            listeners_before = len([l for l in w.net.all_listeners if not l.closed])
            accepted_before = sum(l.accepted for l in w.net.all_listeners if l.port != 2121)
            pr, obs = conf_step(rig, model, line, conf)
            for p in pr:
                p["history"] = steps[:k + 1]
            problems += pr
            verb = line.partition(" ")[0].lower()
            if not logged_before and verb not in ("user", "pass"):
                codes = obs["codes"]
                if (verb in GUARDED or verb not in M.KNOWN_VERBS) and any(c[:1] in "123" for c in codes):
                    problems.append({"kind": "served-before-login", "line": line, "codes": codes, "history": steps[:k + 1]})
                if spy.count != calls_before:
                    problems.append({"kind": "backend-touched-before-login", "line": line,
                                     "calls": spy.calls[calls_before:][:4], "history": steps[:k + 1]})
                if len([l for l in w.net.all_listeners if not l.closed]) > listeners_before:
                    problems.append({"kind": "listener-opened-before-login", "line": line, "history": steps[:k + 1]})
            if verb in ("user", "pass") and spy.count != calls_before:
                problems.append({"kind": "backend-touched-by-login", "line": line, "history": steps[:k + 1]})
            if problems or rig.sessions[0].closed():
                break
        key = (model.user.login if model.user else None, model.logged, model.cwd, model.rename_from, model.passive,
               model.data, model.rest)
        from vf.conform import digest
        return problems, (key, digest(rig)), rig.sessions[0].closed(), w.net.n_events
    finally:
        rig.close()


def run_pipelined(table, hist, newuser, probe, with_worker):
    """the client does not wait for the reply to USER: everything sent after the USER line must already be treated
    as not logged in - also while a transfer worker of the old login is still pending"""
    conf = Conf(TABLES[table], TREE)
    spy = backends.SpyControl()
    rig = conf.new_rig(spy=spy)
    model = conf.new_model()
    problems = []
    try:
        rig.ev(0, "@connect")
        w = rig.world
        for line in hist:
            conf_step(rig, model, line, conf)
        if rig.sessions[0].closed():
            return [], 0
        pre = []
        if with_worker:
            if not model.logged:
                return [], 0
            conf_step(rig, model, "PASV", conf)
            pre = ["LIST /"]            # no data connection is made: its worker waits for wait_future_timeout
        s0 = rig.sessions[0]
        snap_before = rig.snapshot()
        lines = pre + ["USER " + newuser, probe]
        s0.send(("\r\n".join(lines) + "\r\n").encode())
        w.settle(0)
        codes = [c for c, _ in s0.ctl.take_replies()]
        u = model.lookup_user(newuser)
        logged_after = u is not None and u.password is None
        verb = probe.partition(" ")[0].lower()
        want = len(lines)
        if len(codes) < want:
            problems.append({"kind": "pipelined-reply-missing", "sent": lines, "codes": codes})
        elif not logged_after and verb in GUARDED and codes[want - 1][:1] in "123":
            problems.append({"kind": "served-after-reuser-before-login", "sent": lines, "codes": codes})
        if not logged_after and rig.snapshot() != snap_before:
            problems.append({"kind": "tree-changed-after-reuser-before-login", "sent": lines, "codes": codes})
        for p in problems:
            p["history"] = list(hist)
        return problems, w.net.n_events
    finally:
        rig.close()


def pipelined_work(item):
    table, hist = item
    part = report.Partial()
    for newuser in ("bob", "nobody", "alice"):
        for probe in ("MKD /pwned", "PWD", "DELE /g", "RETR /g", "CWD /d", "PASV", "MLST /g", "RNFR /g", "STOR /up"):
            for with_worker in (False, True):
                problems, nev = run_pipelined(table, hist, newuser, probe, with_worker)
                part.evaluations += 1
                part.traces += 1
                part.transitions += len(hist) + 3
                k = report.fp([table, hist, newuser, probe, with_worker])
                part.states.add(k)
                part.nontrivial.add(k)
                for p in problems[:1]:
                    part.violation({"kind": p["kind"], "verb": probe.partition(" ")[0], "pending_worker": with_worker},
                                   {"problem": p, "table": table},
                                   replay={"pipelined": [table, list(hist), newuser, probe, with_worker]})
    return part


# -- login handlers that really suspend (custom user manager) -------------------------------------------------------
SLOW_TABLE = [M.UserSpec(None), M.UserSpec("alice", None, home="/home"), M.UserSpec("bob", "pw", home="/d"),
              M.UserSpec("carol", "cw", home="/home")]
SLOW_PRE = [[], ["USER bob"], ["USER alice"], ["USER bob", "PASS pw"], ["USER carol"]]
SLOW_BURST = ["USER alice", "USER bob", "USER carol", "USER nobody", "PASS pw", "PASS cw", "PASS wrong", "PWD", "DELE /g"]


def run_slow_burst(pre, burst, chooser):
    """a user manager whose get_user / authenticate / notify_logout suspend (executor jobs = environment events):
    the client pipelines a burst of login commands and probes.  Whatever the completion order of the suspended
    operations, the session must never end up with more authority than executing the burst in order gives it."""
    conf = Conf(SLOW_TABLE, TREE, slow_manager=True)
    rig = conf.new_rig(chooser=chooser)
    model = conf.new_model()
    problems = []
    try:
        chooser.active = False
        rig.ev(0, "@connect")
        w = rig.world
        for line in pre:
            conf_step(rig, model, line, conf)
        s0 = rig.sessions[0]
        snap_before = rig.snapshot()
        exp = []
        for line in burst:
            exp += model.step(line).replies
        chooser.active = True
        s0.send(("\r\n".join(burst) + "\r\n").encode())
        w.settle(0)
        chooser.active = False
        w.settle(0)
        codes = [c for c, _ in s0.ctl.take_replies()]
        if len(codes) != len(burst):
            problems.append({"kind": "pipelined-reply-missing", "sent": burst, "codes": codes})
        served = sum(c in ("257", "250") for c in codes)
        served_model = sum(c in ("257", "250") for c in exp)
        if served > served_model:
            problems.append({"kind": "served-beyond-sequential-login", "sent": burst, "codes": codes, "in-order": exp})
        if rig.snapshot() != snap_before and backends.tree_to_snapshot(TREE) == model.tree:
            problems.append({"kind": "tree-changed-beyond-sequential-login", "sent": burst, "codes": codes})
        # final authority: black box (PWD names the home directory of the user the session acts as) and white box
        r = rig.ev(0, "PWD") or []
        pwd = r[-1] if r else ("", [""])
        real_logged = pwd[0] == "257"
        real_home = pwd[1][-1].strip('"') if real_logged else None
        wb = None
        try:
            c = connection_of(rig, 0)
            if c is not None and c["logged"].done() and c["user"].done():
                wb = c.user.login
        except Exception:
            pass
        model_user = model.user.login if (model.logged and model.user) else "<nobody>"
        if real_logged and not model.logged:
            problems.append({"kind": "authorised-beyond-sequential-login", "sent": burst, "codes": codes,
                             "acts-as": wb, "home": real_home, "in-order-result": model_user})
        elif real_logged and model.logged and (real_home != model.cwd or (wb is not None and wb != model.user.login)):
            problems.append({"kind": "authorised-as-another-user", "sent": burst, "codes": codes,
                             "acts-as": wb, "home": real_home, "in-order-result": model_user})
        for p in problems:
            p["pre"] = list(pre)
        return {"problems": problems, "events": w.net.n_events, "trace": report.fp(w.net.trace),
                "outcome": [codes, real_logged, real_home]}
    finally:
        rig.close()


def slow_work(item):
    pre, burst, bound = item
    part = report.Partial()
    kinds = ["order", "early"]
    try:
        for ch, res in explore(lambda c: run_slow_burst(pre, burst, c), bound, kinds=kinds, max_exec=4000):
            if ch is None:
                part.caps.append({"slow-burst": [pre, burst], "cap": 4000})
                break
            part.evaluations += 1
            part.traces += 1
            part.transitions += res["events"]
            part.states.add(res["trace"])
            part.nontrivial.add(res["trace"])
            part.outcomes[report.fp(res["outcome"])] += 1
            part.counters[f"slow_login_exec_dev{ch.deviations}"] += 1
            if ch.deviations:
                part.sample({"pre": pre, "burst": burst, "choices": ch.choices}, limit=1)
            for p in res["problems"][:1]:
                part.violation({"kind": p["kind"], "burst-verbs": [b.partition(" ")[0] for b in burst]},
                               {"problem": p}, replay={"slow": [list(pre), list(burst)], "choices": ch.choices,
                                                       "kinds": kinds})
    except ReplayDivergence as exc:
        part.infra.append(f"replay divergence in slow burst {pre} {burst}: {exc}")
    return part


def slow_items(tier):
    import itertools
    bound = 1 if tier == "quick" else 2
    out = []
    for pre in SLOW_PRE:
        for n in (2, 3):
            for burst in itertools.product(SLOW_BURST, repeat=n):
                verbs = [b.partition(" ")[0] for b in burst]
                if "USER" not in verbs and "PASS" not in verbs:
                    continue
                if n == 3 and tier == "quick" and verbs.count("USER") + verbs.count("PASS") < 2:
                    continue
                out.append((pre, list(burst), bound))
    return out


def expand(item):
    table, hist, probe = item
    part = report.Partial()
    problems, key, closed, nev = run_hist(table, hist, probe)
    part.evaluations += 1
    part.traces += 1
    part.transitions += len(hist) + (1 if probe else 0)
    k = report.fp([table, key])
    part.states.add(k)
    if len(hist) >= 1:
        part.nontrivial.add(report.fp([table, hist, probe]))
    if probe and len(hist) == 2:
        part.sample({"table": table, "history": hist, "probe": probe}, limit=1)
    for p in problems:
        part.violation({"kind": p["kind"], "verb": p.get("line", "").partition(" ")[0].upper()},
                       {"problem": p, "table": table}, replay={"table": table, "history": list(hist), "probe": probe})
    return part, k, closed or bool(problems)


def bfs(table, depth):
    total = report.Partial()
    seen = set()
    frontier = [[]]
    states = []
    for level in range(depth + 1):
        results = report.pmap(expand, [(table, h, None) for h in frontier])
        nxt = []
        for h, (part, key, dead) in zip(frontier, results):
            total.merge(part)
            if key in seen or dead:
                continue
            seen.add(key)
            states.append(h)
            if level < depth:
                for a in LOGIN:
                    nxt.append(h + [a])
        total.counters[f"{table}_level{level}"] = len(frontier)
        frontier = nxt
    total.counters[f"{table}_distinct_states"] = len(seen)
    # from every state every verb, in every spelling
    items = [(table, h, sp) for h in states for pr in PROBES + extra_probes() for sp in spellings(pr)]
    for part, key, dead in report.pmap(expand, items):
        total.merge(part)
    total.counters[f"{table}_probes"] = len(items)
    for part in report.pmap(pipelined_work, [(table, h) for h in states]):
        total.merge(part)
    total.counters[f"{table}_pipelined_states"] = len(states)
    return total


# -- a transfer accepted under one login whose data connection is made after USER named another account -------------
PTREE2 = {"A": {"same": b"A-CONTENT", "onlyA": b"a"}, "B": {"same": b"B-CONTENT", "onlyB": b"b"}}
PTABLE2 = [M.UserSpec("alice", None, home="/A"), M.UserSpec("bob", "pw", home="/B"), M.UserSpec(None, home="/")]


def run_pending(item):
    """alice (no password) starts a transfer with a *relative* argument, the 150 is out, the data connection is not
    made yet; then `USER bob` (331, password never sent) and only then the data connection: what is served, listed or
    stored is alice's location or nothing at all - never bob's"""
    verb, newuser, then_pass = item
    from vf.conform import parse_names
    part = report.Partial()
    conf = Conf(PTABLE2, PTREE2)
    spy = backends.SpyControl()
    rig = conf.new_rig(spy=spy)
    problems = []
    try:
        w = rig.world
        for e in ("@connect", "USER alice", "EPSV"):
            rig.ev(0, e)
        # (no virtual time passes: the worker keeps waiting for its data connection)
        r = rig.ev(0, verb, advance=0)
        codes = [c for c, _ in (r or [])]
        rig.ev(0, "USER " + newuser, advance=0)
        if then_pass:
            rig.ev(0, "PASS wrong", advance=0)
        before = rig.snapshot()
        rig.ev(0, "@data", advance=0)
        s0 = rig.sessions[0]
        v = verb.split(" ")[0]
        if v in ("STOR", "APPE") and s0.data is not None:
            rig.ev(0, "@dsend UPLOADED", advance=0)
            rig.ev(0, "@dclose", advance=0)
        w.settle(2)
        rig.collect()
        got = bytes(s0.data.received) if s0.data is not None else b""
        after = rig.snapshot()
        if newuser == "bob":
            if b"B-CONTENT" in got or b"onlyB" in got:
                problems.append({"kind": "served-from-the-account-whose-password-was-never-sent", "verb": verb,
                                 "data": got.decode("latin-1")[:200]})
            changed = [k for k in set(before) | set(after) if before.get(k) != after.get(k)]
            if any(k.startswith("/B") for k in changed):
                problems.append({"kind": "stored-into-the-account-whose-password-was-never-sent", "verb": verb,
                                 "changed": changed})
        if v in ("LIST", "MLSD") and got:
            names = sorted(parse_names(v.lower(), got))
            if names != ["onlyA", "same"]:
                problems.append({"kind": "pending-listing-shows-another-directory", "verb": verb, "names": names})
        if v == "RETR" and got and got != b"A-CONTENT":
            problems.append({"kind": "pending-download-from-another-location", "verb": verb, "data": got.decode("latin-1")})
        part.evaluations += 1
        part.traces += 1
        part.transitions += w.net.n_events
        k = report.fp(["pending", verb, newuser, then_pass])
        part.states.add(k)
        part.nontrivial.add(k)
        part.outcomes[report.fp(["pending", codes, bool(got)])] += 1
        for p in problems[:1]:
            part.violation({"kind": p["kind"], "verb": v, "pending_worker": True}, {"problem": p},
                           replay={"pending": list(item)})
    finally:
        rig.close()
    return part


def run(tier, seed, t0):
    depth = 4 if tier == "quick" else 6
    parts = [bfs(t, depth) for t in TABLES]
    items = slow_items(tier)
    parts += report.pmap(slow_work, items)
    parts += report.pmap(run_pending, [(v, u, tp) for v in ("MLSD", "LIST", "MLSD .", "LIST .", "RETR same", "STOR same",
                                                            "APPE same", "STOR fresh", "MLSD ../A", "LIST ./")
                                       for u in ("bob", "anonymous", "nobody") for tp in (False, True)])
    part = report.merge_all(parts)
    part.counters["slow_login_bursts"] = len(items)
    bounds = {"pending_transfer": "relative-path transfer accepted as alice, USER bob/anonymous/nobody (and a wrong PASS) before the data connection is made",
              "tables": list(TABLES), "login_alphabet": LOGIN, "probes": len(PROBES), "spellings": 3, "depth": depth,
              "suspending_user_manager": {"pre_states": SLOW_PRE, "burst_alphabet": SLOW_BURST, "burst_length": "2..3",
                                          "deviation_bound": items[0][2], "deviation_kinds": ["order", "early"]}}
    return report.finish(
        PID, tier, seed, "model_checking", part, t0,
        rule="BFS over login histories de-duplicated on (model login state, cwd, pending rename, passive, white-box digest); "
             "from every distinct state every verb is probed in upper/lower/mixed spelling; every step is checked against "
             "the reference model and the not-logged-in oracle (reply class, spy backend call count, listeners). "
             "Suspending user manager: every pipelined burst of login commands and probes, from every pre-state, under "
             "all completion orders of the suspended manager operations with <= d deviations; oracle = never more "
             "authority (served probes, final login) than executing the burst in order",
        bounds=bounds,
        assumptions=["environment model SimLoop/SimNet", "spy backend wraps every abstract PathIO operation"])


def replay(path):
    data = json.loads(open(path).read())
    rp = data["replay"]
    if "slow" in rp:
        res = run_slow_burst(rp["slow"][0], rp["slow"][1], Chooser(rp["choices"], rp["kinds"]))
        print(json.dumps(res["problems"], indent=1, default=repr))
        return 1 if res["problems"] else 0
    if "pending" in rp:
        part = run_pending(tuple(rp["pending"]))
        print(json.dumps([v["detail"] for v in part.violations], indent=1, default=repr))
        return 1 if part.violations else 0
    if "pipelined" in rp:
        problems, nev = run_pipelined(*rp["pipelined"])
        print(json.dumps(problems, indent=1, default=repr))
        return 1 if problems else 0
    problems, key, closed, nev = run_hist(rp["table"], rp["history"], rp["probe"])
    print(json.dumps(problems, indent=1, default=repr))
    return 1 if problems else 0
