"""C20 Passwords never reach the logs.

Non-interference by exhaustive enumeration: for every login history shape, PASS
spelling and password p, the complete formatted log stream (all loggers, DEBUG,
message + args + tracebacks + extras) must be identical to the stream for a
reference password of the same length class - so the logs are a function of the
history shape, the outcome and the password length only.  DESIGN.md §5 C20.
"""
import itertools
import json

from vf import report, logcap
from vf.rig import Rig
from vf.world import Hang

PID = "C20"
SIGMA = ["a", " ", "%", "s", "(", ")", "é", '"', "\\"]
EXTRA = ["%s", "%(message)s", "%d%n", " lead", "trail ", "  ", "密码", "A" * 200, "{0}", "%%", "pa ss", "\\n"]
SHAPES = ["accept", "reject", "before-user", "after-login", "anonymous-then-pass", "retry", "unknown-user",
          # what happens *after* an accepted login, alone and next to another session of the same account
          "accept-then-work", "accept-relogin", "two-sessions-quit-relogin", "two-sessions-drop-relogin",
          # a custom user manager that guards its password check with aioftp.with_timeout, and the check stalls
          "auth-times-out",
          # the PASS line is cut off: its bytes arrive without the line end and the connection ends
          "eof-after-pass", "eof-after-right-pass",
          # a peer that ends its lines with a bare LF (`printf 'USER bob\nPASS pw\nQUIT\n' | nc`), or mixes line ends
          "lf-only", "lf-only-eof", "mixed-line-ends", "lf-only-right",
          # after an accepted login: commands that the account's permission rules refuse
          "accept-then-denied",
          # the account was put into the user manager's (public) list after the server was made: the stock manager has
          # no connection counter for it and the login ends in an internal error - which is logged
          "account-added-later"]
ACCEPTING = ("accept", "retry", "accept-then-work", "accept-relogin", "two-sessions-quit-relogin", "two-sessions-drop-relogin",
             "eof-after-right-pass", "lf-only-right", "accept-then-denied", "account-added-later")
SPELL = ["PASS", "pass", "PaSs"]
# spellings that are not PASS under str.lower() but are under other case mappings (casefold, upper): if the server
# takes one of them for PASS its argument is a password and must not be logged; if it answers 502 it is not a password
ODD_SPELL = ["PA\u017fS", "pa\u00df", "Pa\u017f\u017f", "P\u0410SS", "\uff30\uff21\uff33\uff33", "PASS\u200b"]


def passwords(maxlen):
    out = []
    for n in range(1, maxlen + 1):
        for t in itertools.product(SIGMA, repeat=n):
            out.append("".join(t))
    return out + EXTRA


RAW = [b"\xfcber-geheim", b"geh\xe9im", b"\xff\xfe\xfd\xfc", b"pa\xc3ss", b"x\x80", b"\xe2\x82", b"R4w-\xfcber-geheim", b"\xfc"]


def raw_reference(p):
    """same length, also undecodable, but other bytes at other places"""
    return (b"\xf8" + b"y" * (len(p) - 1)) if p[:1] != b"\xf8" else (b"y" * (len(p) - 1) + b"\xf9")


def klass(p):
    """passwords are compared within the same class: same length, same length after the line protocol's rstrip"""
    return (len(p), len(p.rstrip()), len(p.encode("utf-8")) if len(p) > 50 else 0)


def reference(p):
    n, m, _ = klass(p)
    return "x" * m + " " * (n - m)


def users(a, base, table_pw):
    # (bob's account has permission rules: what is refused by a rule is logged like everything else)
    perms = [a.Permission("/ro", writable=False), a.Permission("/hidden", readable=False, writable=False)]
    return [a.User("bob", table_pw, base_path=base, permissions=perms), a.User(base_path=base)]


def scenario(shape, spelling, p, via_client):
    """returns (log text, outcome codes)"""
    table_pw = p if shape in ACCEPTING and isinstance(p, str) else "Other-Password-1"
    # the line protocol strips trailing blanks, so such a password can never be accepted: keep the shape but
    # the outcome is part of the comparison
    def user_table(a, base):
        table = users(a, base, table_pw)
        if shape != "auth-times-out":
            return table
        import asyncio

        class TimedManager(a.MemoryUserManager):
            def __init__(self, table):
                super().__init__(table, timeout=0.25)

            @a.with_timeout
            async def authenticate(self, user, password):
                await asyncio.sleep(1)           # the back end does not answer in time
                return await super().authenticate(user, password)

        return TimedManager(table)

    with logcap.capture() as cap:
        rig = Rig(tree={"f": b"x", "ro": {"f": b"y"}, "hidden": {"h": b"z"}}, users=user_table, n_sessions=2,
                  server_kwargs={"wait_future_timeout": 1})
        try:
            w = rig.world
            a = w.aioftp
            codes = []
            half_closed = False
            if shape == "account-added-later":
                rig.server.user_manager.users.append(a.User("carol", table_pw, base_path=rig.base))
            if via_client:
                async def main():
                    c = a.Client(path_io_factory=a.MemoryPathIO)
                    await c.connect("127.0.0.1", 2121)
                    try:
                        await c.login("carol" if shape == "account-added-later" else "bob", p)
                        codes.append("ok")
                    except a.StatusCodeError as exc:
                        codes.append("StatusCodeError:" + ",".join(exc.received_codes))
                    except ValueError:
                        codes.append("ValueError")
                    try:
                        # what the server makes of the rest of the password is answered (and logged) by now
                        await c.command("NOOP", "2xx")
                        await c.command("NOOP", "2xx")
                    except (a.StatusCodeError, ConnectionError):
                        pass
                    c.close()
                try:
                    w.run(main())
                except Hang:
                    codes.append("hang")
            else:
                rig.ev(0, "@connect")
                line = f"{spelling} {p}" if isinstance(p, str) else spelling.encode() + b" " + p + b"\r\n"
                hist = {
                    "accept": ["USER bob", line],
                    "reject": ["USER bob", line],
                    "before-user": [line],
                    "after-login": ["USER bob", "PASS Other-Password-1", line],
                    "anonymous-then-pass": ["USER anonymous", line],
                    "retry": ["USER bob", "PASS wrong-one", "USER bob", line],
                    "unknown-user": ["USER nobody", line, "USER bob", line],
                    "accept-then-work": ["USER bob", line, "PWD", "MKD d", "RETR nope", "FOO", "EPSV", "@data", "LIST",
                                         "STOR", "RNTO x", "EPSV x", "REST z"],
                    "accept-relogin": ["USER bob", line, "PWD", "USER bob", line, "PWD", "USER anonymous", "USER bob", line],
                    "two-sessions-quit-relogin": ["USER bob", line, (1, "@connect"), (1, "USER bob"), (1, line),
                                                  "QUIT", (1, "USER bob"), (1, line), (1, "PWD")],
                    "auth-times-out": ["USER bob", line],
                    "account-added-later": ["USER carol", line],
                    "eof-after-pass": ["USER bob", ("@eof", line)],
                    "eof-after-right-pass": ["USER bob", ("@eof", line)],
                    "two-sessions-drop-relogin": ["USER bob", line, (1, "@connect"), (1, "USER bob"), (1, line),
                                                  "USER bob", (1, "@drop"), line, "PWD", "USER bob", line],
                    "accept-then-denied": ["USER bob", line, "MKD /ro/x", "DELE /ro/f", "CWD /hidden", "MLST /hidden/h", "RNFR /ro/f",
                                           "EPSV", "@data", "STOR /ro/up", "LIST /hidden", "RMD /hidden", "PWD"],
                    "lf-only": [("@raw", b"USER bob\n"), ("@raw", b"%PASS%\n"), ("@raw", b"PWD\n")],
                    "lf-only-right": [("@raw", b"USER bob\n%PASS%\nPWD\n")],
                    "lf-only-eof": [("@raw+eof", b"USER bob\n%PASS%\nQUIT\n")],
                    "mixed-line-ends": [("@raw", b"USER bob\n%PASS%\r\n"), ("@raw", b"PWD\r\n")],
                }[shape]
                for h in hist:
                    if isinstance(h, tuple) and h[0] in ("@raw", "@raw+eof"):
                        sess = rig.sessions[0]
                        pl = line if isinstance(line, bytes) else line.encode("utf-8")
                        sess.send(h[1].replace(b"%PASS%", pl.rstrip(b"\r\n")))
                        rig.world.settle(0)
                        if h[0] == "@raw+eof":
                            sess.ctl.send_eof()
                            rig.world.settle()
                            half_closed = True
                        r = sess.ctl.take_replies()
                        codes.append([c for c, _ in (r or [])])
                        continue
                    if isinstance(h, tuple) and h[0] == "@eof":
                        sess = rig.sessions[0]
                        raw = h[1] if isinstance(h[1], bytes) else h[1].encode("utf-8")
                        sess.send(raw.rstrip(b"\r\n"))          # no line end ...
                        rig.world.settle(0)
                        sess.peer.vanish()                      # ... and the connection ends
                        rig.world.settle()
                        codes.append(["<eof>"])
                        continue
                    if isinstance(h, tuple):
                        who, h = h
                        if rig.sessions[who].ctl is None and h != "@connect":
                            codes.append(["<closed>"])
                            continue
                        r = rig.ev(who, h)
                        codes.append([c for c, _ in (r or [])])
                        continue
                    if isinstance(h, bytes):
                        sess = rig.sessions[0]
                        if sess.closed():
                            codes.append(["<closed>"])
                            continue
                        sess.send(h)
                        rig.world.settle()
                        r = sess.ctl.take_replies()
                    else:
                        r = rig.ev(0, h)
                    codes.append([c for c, _ in (r or [])])
                if not half_closed:
                    rig.ev(0, "QUIT")
            rig.world.settle(0)
            return cap.text(), codes
        finally:
            rig.close()


def raw_work(item):
    """passwords that are not valid in the server's encoding (a client using another encoding): the log must not
    depend on which bytes they contain"""
    shape, spelling, pws = item
    part = report.Partial()
    for p in pws:
        log, codes = scenario(shape, spelling, p, False)
        rlog, rcodes = scenario(shape, spelling, raw_reference(p), False)
        part.evaluations += 1
        part.traces += 2
        part.transitions += len(codes)
        part.states.add(report.fp([shape, spelling, "raw", p.decode("latin-1")]))
        part.nontrivial.add(report.fp([shape, spelling, "raw", p.decode("latin-1")]))
        sig = {"kind": None, "shape": shape, "spelling": spelling, "raw_bytes": True}
        rp = {"shape": shape, "spelling": spelling, "via_client": False, "raw": p.decode("latin-1")}
        if codes == rcodes and log != rlog:
            a_l, b_l = log.split("\n"), rlog.split("\n")
            diff = next(((x, y) for x, y in zip(a_l, b_l) if x != y), ("<length>", "<length>"))
            sig["kind"] = "log-depends-on-password"
            part.violation(sig, {"password_repr": repr(p), "log_line": diff[0][:200], "reference_line": diff[1][:200]}, replay=rp)
        for variant in (p.decode("latin-1"), p.decode("utf-8", "replace"), repr(p)[2:-1]):
            if len(variant) >= 4 and variant in log:
                sig["kind"] = "password-literal-in-log"
                part.violation(sig, {"password_repr": repr(p), "as": variant}, replay=rp)
                break
    part.sample({"shape": shape, "spelling": spelling, "raw_passwords": [repr(x) for x in pws[:3]]}, limit=1)
    return part


ENC_PW = ["s3cret-€uro", "€", "pässword☃", "密码abc", "a€b", "€€€€"]


def long_scenario(n, letter, how):
    """a very long password (around and beyond the 64 KiB line limit), the PASS line arriving in two network segments
    or through Client.login"""
    pw = letter * n
    with logcap.capture() as cap:
        rig = Rig(tree={}, users=lambda a, base: users(a, base, "Other-Password-1"))
        try:
            w = rig.world
            a = w.aioftp
            codes = []
            if how == "client":
                async def main():
                    c = a.Client(path_io_factory=a.MemoryPathIO)
                    await c.connect("127.0.0.1", 2121)
                    try:
                        await c.login("bob", pw)
                        codes.append("ok")
                    except Exception as exc:
                        codes.append(type(exc).__name__)
                    finally:
                        c.close()
                try:
                    w.run(main())
                except Hang:
                    codes.append("hang")
            else:
                rig.ev(0, "@connect")
                rig.ev(0, "USER bob")
                s0 = rig.sessions[0]
                line = b"PASS " + pw.encode() + b"\r\n"
                cut = {"two-segments": len(line) // 2, "tail-late": len(line) - 3, "head-first": 5}[how]
                s0.send(line[:cut])
                w.settle()
                if not s0.closed():
                    s0.send(line[cut:])
                    w.settle()
                codes.append([c for c, _ in s0.ctl.take_replies()])
                if not s0.closed():
                    r = rig.ev(0, "PWD")
                    codes.append([c for c, _ in (r or [])])
            w.settle(0)
            return cap.text(), codes
        finally:
            rig.close()


def long_work(item):
    _, how, lengths = item
    part = report.Partial()
    for n in lengths:
        log, codes = long_scenario(n, "q", how)
        rlog, rcodes = long_scenario(n, "z", how)
        part.evaluations += 1
        part.traces += 2
        part.transitions += 2
        k = report.fp(["long", how, n])
        part.states.add(k)
        part.nontrivial.add(k)
        sig = {"kind": None, "long_password": True, "via": how}
        rp = {"long": [how, n]}
        if codes == rcodes and log != rlog:
            a_l, b_l = log.split("\n"), rlog.split("\n")
            diff = next(((x, y) for x, y in zip(a_l, b_l) if x != y), ("<length>", "<length>"))
            sig["kind"] = "log-depends-on-password"
            part.violation(sig, {"length": n, "log_line": diff[0][:120], "reference_line": diff[1][:120]}, replay=rp)
        if "q" * 16 in log:
            sig["kind"] = "password-literal-in-log"
            part.violation(sig, {"length": n}, replay=rp)
    part.sample({"long_passwords": lengths, "via": how}, limit=1)
    return part


def enc_scenario(encoding, p, how):
    """a client configured with an encoding that cannot represent the password (or can): all aioftp logging around
    the failing / succeeding login is captured"""
    with logcap.capture() as cap:
        rig = Rig(tree={}, users=lambda a, base: users(a, base, "Other-Password-1"), server_kwargs={"encoding": encoding})
        try:
            w = rig.world
            a = w.aioftp
            codes = []

            async def main():
                try:
                    if how == "context":
                        async with a.Client.context("127.0.0.1", 2121, "bob", p, path_io_factory=a.MemoryPathIO,
                                                    encoding=encoding):
                            codes.append("ok")
                    else:
                        c = a.Client(path_io_factory=a.MemoryPathIO, encoding=encoding)
                        await c.connect("127.0.0.1", 2121)
                        try:
                            await c.login("bob", p)
                            codes.append("ok")
                        finally:
                            c.close()
                except Exception as exc:
                    codes.append(type(exc).__name__)
            try:
                w.run(main())
            except Hang:
                codes.append("hang")
            w.settle(0)
            return cap.text(), codes
        finally:
            rig.close()


# servers other than aioftp's: every chain of 33x replies a login can run through (RFC 959: USER may be answered
# 230, 331 or 332; PASS 230, 332 ...; ACCT 230 ...), up to four commands, ending accepted, refused or cut off
def login_chains():
    out = []
    for n in range(0, 4):
        for mids in itertools.product(("331", "332"), repeat=n):
            for last in ("230", "530", "421"):
                out.append(list(mids) + [last])
    return out


CHAIN_PW = ["s3cr3t %s pass", "hunter2-Zx", "%(message)s-long", "pässwörd-77", "abcd", "with space inside"]
ACCOUNT = "Account-Name-42"


def chain_scenario(chain, p):
    from vf.fakeserver import FakeServer
    from vf.world import World
    with logcap.capture() as cap:
        w = World()
        a = w.aioftp
        fs = FakeServer({})
        fs.script = [f"{code} step {i}\r\n".encode() for i, code in enumerate(chain)]
        codes = []
        try:
            w.run(fs.start())

            async def main():
                c = a.Client(path_io_factory=a.MemoryPathIO)
                await c.connect("127.0.0.1", 2121)
                try:
                    await c.login("bob", p, ACCOUNT)
                    codes.append("ok")
                except a.StatusCodeError as exc:
                    codes.append("StatusCodeError:" + ",".join(exc.received_codes))
                c.close()
            try:
                w.run(main())
            except Hang:
                codes.append("hang")
            w.settle(0)
            codes.append([cmd.split(" ")[0] for cmd in fs.commands])
            return cap.text(), codes
        finally:
            w.close()


def chain_work(item):
    _, chains = item
    part = report.Partial()
    for chain in chains:
        for p in CHAIN_PW:
            log, codes = chain_scenario(chain, p)
            rlog, rcodes = chain_scenario(chain, reference(p))
            part.evaluations += 1
            part.traces += 1
            part.transitions += len(chain)
            part.states.add(report.fp(["chain", chain, codes]))
            part.nontrivial.add(report.fp(["chain", chain, p]))
            part.outcomes[report.fp(codes)] += 1
            sig = {"kind": None, "shape": "chain:" + ",".join(chain), "spelling": "Client.login"}
            rp = {"chain": chain, "password": p}
            if codes == rcodes and log != rlog:
                a_l, b_l = log.split("\n"), rlog.split("\n")
                diff = next(((x, y) for x, y in zip(a_l, b_l) if x != y), ("<length>", "<length>"))
                sig["kind"] = "log-depends-on-password"
                part.violation(sig, {"password_repr": repr(p), "log_line": diff[0][:200], "reference_line": diff[1][:200]}, replay=rp)
            elif codes != rcodes:
                sig["kind"] = "outcome-depends-on-password"
                part.violation(sig, {"password_repr": repr(p), "codes": codes, "reference_codes": rcodes}, replay=rp)
            if p in log:
                sig["kind"] = "password-literal-in-log"
                part.violation(sig, {"password_repr": repr(p)}, replay=rp)
    part.sample({"login_chains": chains[:3], "passwords": CHAIN_PW}, limit=1)
    return part


def enc_work(item):
    _, encoding, how, pws = item
    part = report.Partial()
    for p in pws:
        ref = "y" * (len(p) - 1) + "☃" if not p.endswith("☃") else "☂" + "y" * (len(p) - 1)
        try:
            p.encode(encoding)
            ref = "y" * len(p)
        except UnicodeEncodeError:
            pass
        log, codes = enc_scenario(encoding, p, how)
        rlog, rcodes = enc_scenario(encoding, ref, how)
        part.evaluations += 1
        part.traces += 2
        part.transitions += 2
        k = report.fp(["enc", encoding, how, p])
        part.states.add(k)
        part.nontrivial.add(k)
        sig = {"kind": None, "client_encoding": encoding, "via": how}
        rp = {"enc": [encoding, how, p]}
        if codes == rcodes and log != rlog:
            a_l, b_l = log.split("\n"), rlog.split("\n")
            diff = next(((x, y) for x, y in zip(a_l, b_l) if x != y), ("<length>", "<length>"))
            sig["kind"] = "log-depends-on-password"
            part.violation(sig, {"password_repr": repr(p), "log_line": diff[0][:200], "reference_line": diff[1][:200]}, replay=rp)
        if len(p) >= 4 and p in log:
            sig["kind"] = "password-literal-in-log"
            part.violation(sig, {"password_repr": repr(p)}, replay=rp)
    part.sample({"client_encoding": encoding, "via": how, "passwords": pws[:3]}, limit=1)
    return part


# passwords with line breaks in them: FTP cannot carry them, and no part of them may end up in a log all the same
LINEBREAK_PW = ["hunter2\r\nzebra-Xq7-tail", "a\nbcdef-Tail9", "abc\rdefgh-K", "\r\nWholeTail-77", "pw\r\nUSER anonymous",
                "tail-first\r\n", "Other-Password-1\r\nQm7-after-the-right-one", "p\nSITE %s %(x)s tail"]


def lb_work(item):
    _, shape, pws = item
    part = report.Partial()
    import re
    for p in pws:
        table = p if shape == "accept" else None
        ref = re.sub(r"[^\r\n]", "x", p)
        log, codes = scenario(shape, "PASS", p, True)
        rlog, rcodes = scenario(shape, "PASS", ref, True)
        part.evaluations += 1
        part.traces += 1
        part.transitions += len(codes)
        part.states.add(report.fp(["linebreak", shape, p, codes]))
        part.nontrivial.add(report.fp(["linebreak", shape, p]))
        part.outcomes[report.fp(codes)] += 1
        sig = {"kind": None, "shape": shape, "spelling": "Client.login", "linebreak": True}
        rp = {"shape": shape, "spelling": "PASS", "via_client": True, "password": p}
        pieces = [x for x in re.split(r"[\r\n]+", p) if len(x.strip()) >= 4 and x != "USER anonymous"]
        leaked = [x for x in pieces if x.strip() in log or x.strip().lower() in log]
        if leaked:
            sig["kind"] = "part-of-password-in-log"
            line = next((ln for ln in log.split("\n") if leaked[0].strip().lower() in ln.lower()), "")
            part.violation(sig, {"password_repr": repr(p), "piece": leaked[0], "log_line": line[:200]}, replay=rp)
        elif codes == rcodes and log != rlog:
            sig["kind"] = "log-depends-on-password"
            a_l, b_l = log.split("\n"), rlog.split("\n")
            diff = next(((x, y) for x, y in zip(a_l, b_l) if x != y), ("<length>", "<length>"))
            part.violation(sig, {"password_repr": repr(p), "log_line": diff[0][:200], "reference_line": diff[1][:200]},
                           replay=rp)
    return part


def work(item):
    if item[0] == "linebreak":
        return lb_work(item)
    if item[0] == "enc":
        return enc_work(item)
    if item[0] == "chain":
        return chain_work(item)
    if item[0] == "long":
        return long_work(item)
    if len(item) == 3:
        return raw_work(item)
    shape, spelling, via_client, pws = item
    part = report.Partial()
    refs = {}
    for p in pws:
        k = klass(p)
        if k not in refs:
            refs[k] = scenario(shape, spelling, reference(p), via_client)
        log, codes = scenario(shape, spelling, p, via_client)
        rlog, rcodes = refs[k]
        part.evaluations += 1
        part.traces += 1
        part.transitions += len(codes)
        part.states.add(report.fp([shape, spelling, via_client, k, codes]))
        if any(ch in p for ch in '% "\\(') or not p.isascii():
            part.nontrivial.add(report.fp([shape, spelling, via_client, p]))
        part.outcomes[report.fp(codes)] += 1
        sig = {"kind": None, "shape": shape, "spelling": spelling if not via_client else "Client.login"}
        if spelling in ODD_SPELL and all("502" in c for c in codes[-1:]) and shape in ("accept", "reject"):
            # the server did not take the line for PASS (502): its argument is not a password
            continue
        if codes == rcodes and log != rlog:
            # find the first differing line for the report
            a_l, b_l = log.split("\n"), rlog.split("\n")
            diff = next(((x, y) for x, y in zip(a_l, b_l) if x != y), ("<length>", "<length>"))
            sig["kind"] = "log-depends-on-password"
            part.violation(sig, {"password_repr": repr(p), "log_line": diff[0][:200], "reference_line": diff[1][:200]},
                           replay={"shape": shape, "spelling": spelling, "via_client": via_client, "password": p})
        elif codes != rcodes and shape not in ACCEPTING:
            sig["kind"] = "outcome-depends-on-password"
            part.violation(sig, {"password_repr": repr(p), "codes": codes, "reference_codes": rcodes},
                           replay={"shape": shape, "spelling": spelling, "via_client": via_client, "password": p})
        if len(p.strip()) >= 4 and p.strip() in log:
            sig["kind"] = "password-literal-in-log"
            part.violation(sig, {"password_repr": repr(p)},
                           replay={"shape": shape, "spelling": spelling, "via_client": via_client, "password": p})
    part.sample({"shape": shape, "spelling": spelling, "client": via_client, "passwords": pws[:4]}, limit=1)
    return part


def build_items(tier):
    pws = passwords(2 if tier == "quick" else 3)
    items = []
    chunk = 40
    for shape in SHAPES:
        for sp in SPELL:
            sub = pws if (tier != "quick" or sp == "PASS" or shape in ("accept", "reject")) else EXTRA + passwords(1)
            for i in range(0, len(sub), chunk):
                items.append((shape, sp, False, sub[i:i + chunk]))
    for shape in ("accept", "reject"):
        for i in range(0, len(pws), chunk):
            items.append((shape, "PASS", True, pws[i:i + chunk]))
        for sp in ODD_SPELL:
            items.append((shape, sp, False, EXTRA + passwords(1)))
    for shape in ("reject", "before-user", "after-login", "retry"):
        for sp in SPELL:
            items.append((shape, sp, RAW))
    for shape in ("accept", "reject"):
        items.append(("linebreak", shape, LINEBREAK_PW))
    for enc in ("latin-1", "ascii", "cp1251"):
        for how in ("context", "login"):
            items.append(("enc", enc, how, ENC_PW))
    chains = login_chains()
    for i in range(0, len(chains), 6):
        items.append(("chain", chains[i:i + 6]))
    for how in ("two-segments", "tail-late", "head-first", "client"):
        for n in ([1000, 65529, 65531, 65536, 70000, 140000] + ([300000] if how == "client" else [])):
            items.append(("long", how, [n]))
    return items


def run(tier, seed, t0):
    items = build_items(tier)
    if seed:
        k = seed % len(items)
        items = items[k:] + items[:k]
    part = report.merge_all(report.pmap(work, items))
    bounds = {"alphabet": SIGMA, "max_len": 2 if tier == "quick" else 3, "extra": [repr(e)[:20] for e in EXTRA],
              "shapes": SHAPES, "spellings": SPELL + ["Client.login"], "cases": part.evaluations,
              "raw_byte_passwords": len(RAW), "client_encodings": ["latin-1", "ascii", "cp1251"],
              "client_entry_points": ["Client.login", "Client.context"],
              "long_passwords": "1000 .. 300000 characters, the PASS line in one piece (client) or two network segments"}
    return report.finish(
        PID, tier, seed, "model_checking", part, t0,
        rule="for every (history shape, PASS spelling or Client.login, password) the full formatted log stream of one "
             "deterministic execution is compared byte for byte with that of a reference password of the same length "
             "class; plus literal-substring check for passwords of length >= 4. Non-trivial = password containing a "
             "format/protocol metacharacter or non-ASCII.",
        bounds=bounds,
        assumptions=["deterministic SimLoop execution (same ports, same virtual times), so logs of two runs differ only "
                     "through the password", "length class = (length, length after the line protocol's right-strip)"])


def replay(path):
    data = json.loads(open(path).read())
    rp = data["replay"]
    if "chain" in rp:
        global CHAIN_PW
        CHAIN_PW = [rp["password"]]
        part = chain_work(("chain", [rp["chain"]]))
    elif "long" in rp:
        part = long_work(("long", rp["long"][0], [rp["long"][1]]))
    elif "enc" in rp:
        part = enc_work(("enc", rp["enc"][0], rp["enc"][1], [rp["enc"][2]]))
    elif "raw" in rp:
        part = raw_work((rp["shape"], rp["spelling"], [rp["raw"].encode("latin-1")]))
    else:
        part = work((rp["shape"], rp["spelling"], rp["via_client"], [rp["password"]]))
    print(json.dumps([v["detail"] for v in part.violations], indent=1, default=repr))
    return 1 if part.violations else 0
