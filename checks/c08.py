"""C08 File and directory names mean the same thing in every command and reply.

E3 over names at the wire level: for every name of length 1..3 over a
metacharacter alphabet (plus a fixed list), at nesting depth 1 and 2, one
session through the real client API against the real server (with MLSx and
with the LIST fallback): mkdir, cd + pwd, cd up, upload, list (MLSD), list
(raw LIST), stat, download, rename away and back, remove - comparing the
backend tree, PWD, listings and bytes after every step.  DESIGN.md §5 C08.
"""
import asyncio
import itertools
import json
import pathlib

from vf import report
from vf.rig import Rig
from vf.world import Hang

PID = "C08"
SIGMA = ["a", " ", '"', ";", "=", "-", ">", "\\", "%", "2", "é", "́", "😀"]
FIXED = ["Type=dir;", "a -> b", "->", "250 x", "250-x", '""', 'a""b', '"a', 'a"', " a", " a", "-rw-r--r--", "%s",
         "a;b=c", "...", "  a", 'a"""b', "Size=5;x", "total 0", "a\tb", "d", "-", "226 done", "1 2 3 4 5 6 7 8 9",
         "a; b", "; x", "x; Type=dir; y", "a ;b", "a= b", "a;", "a -> b -> c", "Jan 15 12:30 x", "a\\ b", "a  b",
         # names a shell, a home-directory convention or a glob would read something into
         # a name that begins and ends with a quote (what a client that quotes its arguments would send for the name inside)
         '"a"', '"a b"', '"d"',
         "~", "~x", "~root", "x~", "$HOME", "%HOME%", "*", "?", "[a]", "{a,b}", "`x`", "$(x)", "!", "#x", "&", "a|b", "a>b"]
DATA = b"payload-\xff\x00-end"


def names(maxlen):
    out = []
    for n in range(1, maxlen + 1):
        for t in itertools.product(SIGMA, repeat=n):
            s = "".join(t)
            if s != s.rstrip() or s in (".", ".."):
                continue
            out.append(s)
    for s in FIXED:
        if s not in out:
            out.append(s)
    return out


def classify(name):
    return {"leading_ws": name != name.lstrip(), "quote": '"' in name, "arrow": " -> " in name,
            "inner_ws": " " in name.strip()}


NATIVE = {"latin-1": ["café", "å b", "ÿ", "é; x", 'é"é'], "cp1251": ["Привет", "мир; Type=dir", "отчёт №1", 'я"я'],
          "utf-16-le-is-not-a-line-protocol": []}


def scenario(name, depth, fallback, encoding="utf-8"):
    """returns list of problems"""
    rig = Rig(tree={"p": {}}, server_kwargs={"block_size": 5, "encoding": encoding})
    w = rig.world
    a = w.aioftp
    if fallback:
        rig.server.commands_mapping.pop("mlst")
        rig.server.commands_mapping.pop("mlsd")
    problems = []
    P = pathlib.PurePosixPath("/p")
    if depth == 2:
        P = P / name

    def tree_has(expected, step):
        snap = rig.snapshot()
        if snap != expected:
            problems.append({"kind": "tree", "step": step, "got": sorted(snap), "want": sorted(expected)})
            return False
        return True

    async def main():
        c = a.Client(path_io_factory=a.MemoryPathIO, encoding=encoding)
        await c.connect("127.0.0.1", 2121)
        await c.login()
        base = {"/p": None}
        if depth == 2:
            await c.make_directory(P)
            base[str(P)] = None
        d = P / name
        f = d / name
        # 1 mkdir
        await c.make_directory(d)
        exp = dict(base)
        exp[str(d)] = None
        if not tree_has(exp, "make_directory"):
            return
        # 2 cd + pwd
        await c.change_directory(d)
        pwd = await c.get_current_directory()
        if pwd != d:
            problems.append({"kind": "pwd", "step": "cd+pwd", "got": str(pwd), "want": str(d)})
        # 3 cd up
        await c.change_directory()
        pwd = await c.get_current_directory()
        if pwd != P:
            problems.append({"kind": "pwd", "step": "cd-up", "got": str(pwd), "want": str(P)})
        # relative cd by bare name, then back to the root
        await c.change_directory(name) if name not in ("..",) else None
        pwd = await c.get_current_directory()
        if pwd != d:
            problems.append({"kind": "pwd", "step": "cd-relative", "got": str(pwd), "want": str(d)})
        await c.change_directory("/")
        # 4 upload
        async with c.upload_stream(f) as st:
            await st.write(DATA)
        exp[str(f)] = DATA
        if not tree_has(exp, "upload_stream"):
            return
        # 5 list (default command)
        got = [(str(p), i.get("type")) for p, i in await c.list(d)]
        if got != [(str(f), "file")]:
            problems.append({"kind": "list", "step": "list-default", "got": got, "want": [(str(f), "file")]})
        # 6 list raw LIST
        got = [(str(p), i.get("type"), i.get("size")) for p, i in await c.list(d, raw_command="LIST")]
        if got != [(str(f), "file", str(len(DATA)))]:
            problems.append({"kind": "list", "step": "list-raw-LIST", "got": got,
                             "want": [(str(f), "file", str(len(DATA)))]})
        got = [(str(p), i.get("type")) for p, i in await c.list(P)]
        if got != [(str(d), "dir")]:
            problems.append({"kind": "list", "step": "list-parent", "got": got, "want": [(str(d), "dir")]})
        # 7 stat
        st = await c.stat(f)
        if st.get("type") != "file" or str(st.get("size")) != str(len(DATA)):
            problems.append({"kind": "stat", "step": "stat-file", "got": dict(st)})
        st = await c.stat(d)
        if st.get("type") != "dir":
            problems.append({"kind": "stat", "step": "stat-dir", "got": dict(st)})
        if not await c.exists(f) or not await c.is_file(f) or not await c.is_dir(d):
            problems.append({"kind": "stat", "step": "exists/is_file/is_dir"})
        # 8 download
        async with c.download_stream(f) as stream:
            data = await stream.read()
        if data != DATA:
            problems.append({"kind": "download", "step": "download_stream", "got": repr(data)})
        # 8a the bare name in a transfer command whose data connection is made later, the working directory having
        # changed meanwhile: the name means what it meant when the command was given
        if name not in (".", ".."):
            await c.change_directory(d)
            code, info = await c.command("EPSV", "229")
            _, port = c.parse_epsv_response(info[-1])
            await c.command("RETR " + name, "1xx")
            await c.change_directory(P)
            reader, writer = await asyncio.open_connection("127.0.0.1", port)
            late = await reader.read()
            writer.close()
            try:
                await c.command(None, "2xx")
            except a.StatusCodeError as exc:
                problems.append({"kind": "download", "step": "late-data-connection-relative-name", "got": repr(exc)[:120]})
            else:
                if late != DATA:
                    problems.append({"kind": "download", "step": "late-data-connection-relative-name", "got": repr(late)})
            await c.change_directory("/")
        # 8c the tree operation on the working directory itself ("." and ""): the entry arrives under its own name
        if name not in (".", ".."):
            await c.change_directory(d)
            for k, src in enumerate((".", "")):
                await c.download(src, f"dl{k}", write_into=True)
                top = [n for n in c.path_io.fs[0].content if n.name == f"dl{k}"]
                got_names = sorted(n.name for n in top[0].content) if top else None
                if got_names != [name]:
                    problems.append({"kind": "download", "step": f"download-of-the-working-directory-{src!r}", "got": got_names,
                                     "want": [name]})
            await c.change_directory("/")
        # 8b another session sees and changes the same name; this session must see that at once
        c2 = a.Client(path_io_factory=a.MemoryPathIO, encoding=encoding)
        await c2.connect("127.0.0.1", 2121)
        await c2.login()
        got = [(str(p), i.get("type")) for p, i in await c2.list(d)]
        if got != [(str(f), "file")]:
            problems.append({"kind": "list", "step": "other-session-list", "got": got, "want": [(str(f), "file")]})
        moved = d / ("m" + name)
        await c2.rename(f, moved)
        if await c.exists(f) or not await c.exists(moved):
            problems.append({"kind": "stat", "step": "other-session-rename-not-seen"})
        async with c.download_stream(moved) as stream:
            if await stream.read() != DATA:
                problems.append({"kind": "download", "step": "download-after-other-session-rename"})
        await c2.rename(moved, f)
        await c2.remove(f)
        async with c2.upload_stream(f) as st:
            await st.write(b"second-" + DATA)
        async with c.download_stream(f) as stream:
            data = await stream.read()
        if data != b"second-" + DATA:
            problems.append({"kind": "download", "step": "download-after-other-session-replaced-the-file", "got": repr(data)})
        st2 = await c.stat(f)
        if str(st2.get("size")) != str(len(DATA) + 7):
            problems.append({"kind": "stat", "step": "stat-after-other-session-replaced-the-file", "got": dict(st2)})
        await c2.remove(f)
        async with c2.upload_stream(f) as st:
            await st.write(DATA)
        await c2.quit()
        # 9 rename away (to another special name) and back
        other = d / ("r" + name)
        await c.rename(f, other)
        exp2 = dict(exp)
        del exp2[str(f)]
        exp2[str(other)] = DATA
        if not tree_has(exp2, "rename-away"):
            return
        await c.rename(other, f)
        if not tree_has(exp, "rename-back"):
            return
        if name not in (".", ".."):
            # 9b renamed from inside its directory to a bare name: that is a name in the working directory
            await c.change_directory(P)
            bare = "m" + name
            await c.rename(f, bare)
            exp2b = dict(exp)
            del exp2b[str(f)]
            exp2b[str(P / bare)] = DATA
            if not tree_has(exp2b, "rename-to-bare-name"):
                return
            await c.rename(bare, f)
            if not tree_has(exp, "rename-back-from-bare-name"):
                return
        # 10 remove
        await c.remove(d)
        if not tree_has(base, "remove"):
            return
        if name not in (".", ".."):
            # 11 the bare name, relative, from two working directories: the name inside itself
            await c.change_directory(P)
            await c.make_directory(name)
            await c.change_directory(name)
            await c.make_directory(name)
            await c.change_directory(name)
            pwd = await c.get_current_directory()
            if pwd != d / name:
                problems.append({"kind": "pwd", "step": "relative-nested", "got": str(pwd), "want": str(d / name)})
            exp3 = dict(base)
            exp3[str(d)] = None
            exp3[str(d / name)] = None
            if not tree_has(exp3, "relative-nested"):
                return
            # 12 removed under the absolute spelling, made again under the relative one
            await c.change_directory(P)
            await c.remove(d)
            await c.make_directory(name)
            exp4 = dict(base)
            exp4[str(d)] = None
            if not tree_has(exp4, "remade-after-absolute-remove"):
                return
            # 13 removed by another session, made again by this one
            c3 = a.Client(path_io_factory=a.MemoryPathIO, encoding=encoding)
            await c3.connect("127.0.0.1", 2121)
            await c3.login()
            await c3.remove(d)
            await c3.quit()
            await c.make_directory(name)
            if not tree_has(exp4, "remade-after-other-session-remove"):
                return
            await c.remove(d)
        await c.quit()

    try:
        try:
            w.run(main())
        except Hang:
            problems.append({"kind": "hang", "step": "?"})
        except Exception as exc:
            problems.append({"kind": "exception", "step": "?", "exc": repr(exc)[:300]})
        return problems, w.net.n_events
    finally:
        rig.close()


def work(item):
    ns, depth, fallback = item[:3]
    encoding = item[3] if len(item) > 3 else "utf-8"
    part = report.Partial()
    for name in ns:
        problems, nev = scenario(name, depth, fallback, encoding)
        part.evaluations += 1
        part.traces += 1
        part.transitions += nev
        part.states.add(report.fp([name, depth, fallback, encoding]))
        if any(ch in name for ch in ' ";=->\\%') or not name.isascii():
            part.nontrivial.add(report.fp([name, depth, fallback, encoding]))
        part.outcomes[report.fp(sorted(p["kind"] for p in problems))] += 1
        for p in problems[:1]:
            sig = {"kind": p["kind"], "step": p["step"], "fallback": fallback, "encoding": encoding, **classify(name),
                   "list_parser": bool(fallback or p["step"] == "list-raw-LIST")}
            part.violation(sig, {"name": name, "depth": depth, "problem": p},
                           replay={"name": name, "depth": depth, "fallback": fallback, "encoding": encoding})
    part.sample({"names": ns[:5], "depth": depth, "list_fallback": fallback, "encoding": encoding}, limit=1)
    return part


def build_items(tier):
    ns = names(2 if tier == "quick" else 3)
    if tier == "quick":
        # length 3: every name containing at least two metacharacters is kept out of quick; a diagonal sample is not
        # taken - quick simply uses the smaller bound (DESIGN.md §3.3)
        pass
    items = []
    for depth in (1, 2):
        for fallback in (False, True):
            for i in range(0, len(ns), 12):
                items.append((ns[i:i + 12], depth, fallback))
    # the same through servers and clients configured with another encoding (names that encoding can represent)
    for enc in ("latin-1", "cp1251"):
        pool = [n for n in names(1) + NATIVE[enc]]
        # every high byte of the single-byte encoding inside a name, and 0xFF followed by every telnet command code
        # (0xF0..0xFF): in these encodings they are ordinary letters
        for b in range(0x80, 0x100):
            try:
                pool.append("a" + bytes([b]).decode(enc) + "b")
            except UnicodeDecodeError:
                pass
        for b in range(0xF0, 0x100):
            try:
                pool.append("p" + bytes([0xFF, b]).decode(enc) + "q")
                pool.append("d" + bytes([b, b]).decode(enc) + "e")        # the same letter twice (0xFF 0xFF is not an escape)
            except UnicodeDecodeError:
                pass
        ok = []
        for n in pool:
            try:
                n.encode(enc)
                ok.append(n)
            except UnicodeEncodeError:
                pass
        for fallback in (False, True):
            for i in range(0, len(ok), 12):
                items.append((ok[i:i + 12], 1, fallback, enc))
    return items


def run(tier, seed, t0):
    items = build_items(tier)
    if seed:
        k = seed % len(items)
        items = items[k:] + items[:k]
    part = report.merge_all(report.pmap(work, items))
    bounds = {"alphabet": SIGMA, "max_len": 2 if tier == "quick" else 3, "fixed": FIXED, "depths": [1, 2],
              "servers": ["MLSD/MLST", "LIST fallback (mlst/mlsd removed)"],
              "encodings": ["utf-8 (all names)", "latin-1 and cp1251 (single characters, fixed list, native names, every high byte, 0xFF + telnet command bytes)"]}
    return report.finish(
        PID, tier, seed, "model_checking", part, t0,
        rule="every name (no trailing whitespace, not '.'/'..') x depth x server flavour: one session through the real "
             "client API, backend tree / PWD / listings / bytes compared after every step. Non-trivial = name with a "
             "protocol metacharacter or non-ASCII.",
        bounds=bounds,
        assumptions=["environment model SimLoop/SimNet", "in-memory backend on both sides"])


def replay(path):
    data = json.loads(open(path).read())
    rp = data["replay"]
    problems, _ = scenario(rp["name"], rp["depth"], rp["fallback"], rp.get("encoding", "utf-8"))
    print(json.dumps(problems, indent=1, default=repr))
    return 1 if problems else 0
