"""C09 Client tree operations (upload, download, recursive list, remove) are faithful.

E3 over trees at the wire level: every rooted tree with <= 4 nodes over names
{a, b} (files with distinct contents incl. empty, empty directories, same names
at different levels) and single files x destination x write_into x remote cwd
x block size x server flavour (MLSD / LIST fallback), through the real client
and server; whole-tree comparison against the documented specification.
DESIGN.md §5 C09.
"""
import io
import itertools
import json
import pathlib
import posixpath

from vf import report, backends
from vf.rig import Rig
from vf.world import Hang

PID = "C09"
SERVER_TREE = {"w": {}, "keep": {"k": b"K"}}
DESTS = ["", "x", "x/y", "x/y/z", "/x/y", "//x", "x//y/"]     # incl. a doubled leading slash and redundant slashes


def gen_children(budget, depth=0):
    """all child maps {name: subtree} over names a,b using at most ``budget`` nodes"""
    if budget == 0:
        return [{}]
    out = [{}]
    opts_for = {}
    for name in ("a", "b"):
        o = [None]                                   # absent
        o.append(("file",))
        for sub in gen_children(budget - 1, depth + 1):
            o.append(("dir", sub))
        opts_for[name] = o
    res = []
    for oa in opts_for["a"]:
        for ob in opts_for["b"]:
            t = {}
            if oa is not None:
                t["a"] = oa
            if ob is not None:
                t["b"] = ob
            if count(t) <= budget:
                res.append(t)
    # dedupe
    seen, uniq = set(), []
    for t in res:
        k = repr(t)
        if k not in seen:
            seen.add(k)
            uniq.append(t)
    return uniq


def count(t):
    n = 0
    for v in t.values():
        n += 1
        if v[0] == "dir":
            n += count(v[1])
    return n


def materialise(t, prefix="", counter=None):
    """-> nested dict with distinct file contents (one of them empty)"""
    counter = counter if counter is not None else [0]
    out = {}
    for name, v in t.items():
        if v[0] == "file":
            i = counter[0]
            counter[0] += 1
            out[name] = b"" if i == 1 else (f"<{prefix}{name}#{i}>".encode() * (1 + i))
        else:
            out[name] = materialise(v[1], prefix + name + "/", counter)
    return out


def all_sources(max_nodes):
    """(kind, tree) : ('file', bytes) or ('dir', nested dict)"""
    out = [("file", b"single-file-content"), ("file", b"")]
    for t in gen_children(max_nodes - 1):
        out.append(("dir", materialise(t)))
    return out


def populate_client(pio, base, tree):
    from aioftp import pathio
    root = pio.fs[0]
    node = root
    for part in pathlib.PurePosixPath(base).parts[1:]:
        for c in node.content:
            if c.name == part:
                node = c
                break
        else:
            c = pathio.Node("dir", part, content=[])
            node.content.append(c)
            node = c

    def mk(name, val):
        if isinstance(val, dict):
            n = pathio.Node("dir", name, content=[])
            for k, v in val.items():
                n.content.append(mk(k, v))
            return n
        return pathio.Node("file", name, content=io.BytesIO(val))

    for k, v in tree.items():
        node.content.append(mk(k, v))


def snapshot_client(pio):
    out = {}

    def walk(n, prefix):
        for c in n.content:
            p = prefix + "/" + c.name
            if c.type == "dir":
                out[p] = None
                walk(c, p)
            else:
                out[p] = bytes(c.content.getbuffer())

    walk(pio.fs[0], "")
    return out


def flatten(tree, prefix):
    """nested dict (or bytes) placed at prefix -> snapshot dict"""
    if not isinstance(tree, dict):
        return {prefix: tree}
    out = {prefix: None} if prefix not in ("", "/") else {}
    for k, v in tree.items():
        out.update(flatten(v, prefix.rstrip("/") + "/" + k))
    return out


def with_parents(snap):
    out = dict(snap)
    for p in list(snap):
        q = posixpath.dirname(p)
        while q not in ("/", ""):
            out.setdefault(q, None)
            q = posixpath.dirname(q)
    return out


def norm(cwd, p):
    """the location a path means on the server: '..' folded, '.', empty and doubled slashes dropped (also a doubled
    leading slash: the server knows one root)"""
    if not p:
        return cwd
    s = p if p.startswith("/") else cwd.rstrip("/") + "/" + p
    stack = []
    for part in s.split("/"):
        if part in ("", "."):
            continue
        if part == "..":
            if stack:
                stack.pop()
            continue
        stack.append(part)
    return "/" + "/".join(stack)


def rename_tree(t, m):
    if not isinstance(t, dict):
        return t
    return {m.get(k, k): rename_tree(v, m) for k, v in t.items()}


def scenario(case):
    op, kind, src_tree, dest, write_into, cwd, block, fallback = (case[k] for k in (
        "op", "kind", "tree", "dest", "write_into", "cwd", "block", "fallback"))
    encoding = case.get("encoding", "utf-8")
    if case.get("names"):
        src_tree = rename_tree(src_tree, case["names"])
    spy = backends.SpyControl()
    if case.get("short_reads"):
        # a backend may return fewer bytes than asked for before the end of the file ("read some data")
        spy.read_cap = case["short_reads"]
    when = {}
    if case.get("mtime") is not None:
        # entries last modified long ago (the LIST fallback then prints the year form); "now" is fixed as well
        when = {"mtime": case["mtime"], "epoch0": case["now"]}
    rig = Rig(tree=SERVER_TREE if op in ("upload", "upload-seq", "upload-again") else None, spy=spy,
              server_kwargs={"block_size": 7, "encoding": encoding}, **when)
    w = rig.world
    a = w.aioftp
    if fallback:
        rig.server.commands_mapping.pop("mlst")
        rig.server.commands_mapping.pop("mlsd")
    problems = []
    cfactory = a.MemoryPathIO
    if case.get("short_reads"):
        cspy = backends.SpyControl()
        cspy.read_cap = case["short_reads"]
        cfactory = backends.make_spy(a.MemoryPathIO, cspy)
    client = a.Client(path_io_factory=cfactory, encoding=encoding)
    payload = src_tree if kind == "dir" else src_tree
    try:
        if op == "upload-seq":
            # one client, the same relative destination from several working directories, and make_directory in between
            populate_client(client.path_io, "/local", {"src": payload})
            before = backends.tree_to_snapshot(SERVER_TREE)
            want = dict(before)
            for wd in ("/w", "/keep", "/"):
                target = posixpath.join(norm(wd, dest), "src") if not write_into else norm(wd, dest)
                want.update(with_parents(flatten(payload, target)))
            want.pop("/", None)

            async def main():
                await client.connect("127.0.0.1", 2121)
                await client.login()
                for wd in ("/w", "/keep", "/"):
                    await client.change_directory(wd)
                    await client.upload("/local/src", dest, write_into=write_into, block_size=block)
                await client.quit()
        elif op == "upload-again":
            # the same tree, changed (every file has new contents, every directory a new file), uploaded to the same
            # destination a second time: what is there already is a tree like any other destination
            def changed(t):
                if not isinstance(t, dict):
                    return t + b"!changed"
                out_ = {k: changed(v) for k, v in t.items()}
                out_["zz-new"] = b"NEW"
                return out_
            payload2 = changed(payload)
            populate_client(client.path_io, "/local", {"src": payload})
            populate_client(client.path_io, "/local2", {"src": payload2})
            before = backends.tree_to_snapshot(SERVER_TREE)
            destp = norm(cwd, dest)
            target = destp if write_into else posixpath.join(destp, "src")
            want = dict(before)
            want.update(with_parents(flatten(payload2, target)))
            want.pop("/", None)

            async def main():
                await client.connect("127.0.0.1", 2121)
                await client.login()
                if cwd != "/":
                    await client.change_directory(cwd)
                await client.upload("/local/src", dest, write_into=write_into, block_size=block)
                await client.upload("/local2/src", dest, write_into=write_into, block_size=block)
                await client.quit()
        elif op == "upload":
            populate_client(client.path_io, "/local", {"src": payload})
            before = backends.tree_to_snapshot(SERVER_TREE)
            destp = norm(cwd, dest)
            target = destp if write_into else posixpath.join(destp, "src")
            want = dict(before)
            want.update(with_parents(flatten(payload, target)))
            want.pop("/", None)

            async def main():
                await client.connect("127.0.0.1", 2121)
                await client.login()
                if cwd != "/":
                    await client.change_directory(cwd)
                await client.upload("/local/src", dest, write_into=write_into, block_size=block)
                await client.quit()
        else:
            # remote tree: /w/src (+ /keep); download / list / remove
            remote = {"w": {"src": payload}, "keep": {"k": b"K"}}
            backends.populate_memory(rig.server, remote, mtime=case.get("mtime"))
            if op == "download":
                populate_client(client.path_io, "/", {"lkeep": {"k": b"LK"}})
                before = snapshot_client(client.path_io)
                destp = norm("/", dest)
                target = destp if write_into else posixpath.join(destp, "src")
                want = dict(before)
                want.update(with_parents(flatten(payload, target)))
                want.pop("/", None)
                srcarg = "src" if cwd == "/w" else "/w/src"

                async def main():
                    await client.connect("127.0.0.1", 2121)
                    await client.login()
                    if cwd != "/":
                        await client.change_directory(cwd)
                    await client.download(srcarg, dest, write_into=write_into, block_size=block)
                    await client.quit()
            elif op == "list":
                arg = {"abs": "/w", "rel": "w" if cwd == "/" else "", "empty": ""}[dest]
                result = {}

                async def main():
                    await client.connect("127.0.0.1", 2121)
                    await client.login()
                    if cwd != "/":
                        await client.change_directory(cwd)
                    result["entries"] = [(str(p), i["type"], i.get("size")) for p, i in
                                         await client.list(arg, recursive=True)]
                    await client.quit()
            else:  # remove
                arg = "src" if cwd == "/w" else "/w/src"

                async def main():
                    await client.connect("127.0.0.1", 2121)
                    await client.login()
                    if cwd != "/":
                        await client.change_directory(cwd)
                    await client.remove(arg)
                    await client.quit()
        try:
            w.run(main())
        except Hang:
            problems.append({"kind": "hang"})
        except Exception as exc:
            problems.append({"kind": "exception", "exc": repr(exc)[:300]})
        if not problems:
            if op in ("upload", "upload-seq", "upload-again"):
                got = rig.snapshot()
                if got != want:
                    problems.append({"kind": "uploaded-tree", "missing": sorted(set(want) - set(got)),
                                     "unexpected": sorted(set(got) - set(want)),
                                     "content": sorted(k for k in set(got) & set(want) if got[k] != want[k])})
            elif op == "download":
                got = snapshot_client(client.path_io)
                if got != want:
                    problems.append({"kind": "downloaded-tree", "missing": sorted(set(want) - set(got)),
                                     "unexpected": sorted(set(got) - set(want)),
                                     "content": sorted(k for k in set(got) & set(want) if got[k] != want[k])})
                if rig.snapshot() != backends.tree_to_snapshot(remote):
                    problems.append({"kind": "download-changed-the-server"})
            elif op == "list":
                base = {"abs": "/w", "rel": "w" if cwd == "/" else "", "empty": ""}[dest]
                sub = flatten({"src": payload}, "")     # relative to /w
                root_rel = "/w" if (cwd == "/" and dest != "empty") or dest == "abs" else ""
                want_entries = []
                whole = backends.tree_to_snapshot(remote)
                scope = "/w" if (dest != "empty" or cwd == "/w") else "/"
                for p, v in whole.items():
                    if scope == "/" or p.startswith("/w/"):
                        rel = p[len(scope):].lstrip("/") if scope != "/" else p.lstrip("/")
                        shown = posixpath.join(base, rel) if base else rel
                        want_entries.append((shown, "dir" if v is None else "file", None if v is None else str(len(v))))
                got_entries = [(p, t, None if t == "dir" else s) for p, t, s in result["entries"]]
                if sorted(got_entries) != sorted(want_entries):
                    problems.append({"kind": "recursive-list", "got": sorted(got_entries), "want": sorted(want_entries)})
            else:
                got = rig.snapshot()
                want = {"/w": None, "/keep": None, "/keep/k": b"K"}
                if got != want:
                    problems.append({"kind": "remove", "got": sorted(got), "want": sorted(want)})
        return problems, w.net.n_events
    finally:
        rig.close()


def dash_tree(fallback):
    """tree operations on a directory whose name begins with '-', addressed by its bare relative name"""
    rig = Rig(tree={"w": {"-x": {"inner": b"in", "sub": {"deep": b"d"}, "void": {}}, "top": b"t", "other": {"o": b"o"}}},
              server_kwargs={"block_size": 7})
    w = rig.world
    a = w.aioftp
    if fallback:
        rig.server.commands_mapping.pop("mlst")
        rig.server.commands_mapping.pop("mlsd")
    problems = []
    client = a.Client(path_io_factory=a.MemoryPathIO)

    async def main():
        await client.connect("127.0.0.1", 2121)
        await client.login()
        await client.change_directory("/w")
        got = sorted((str(p_), i["type"]) for p_, i in await client.list("-x", recursive=True))
        want = sorted([("-x/inner", "file"), ("-x/sub", "dir"), ("-x/sub/deep", "file"), ("-x/void", "dir")])
        if got != want:
            problems.append({"kind": "recursive-list", "got": got, "want": want})
            return
        await client.download("-x", "/dl", write_into=True)
        snap = snapshot_client(client.path_io)
        want_dl = {"/dl": None, "/dl/inner": b"in", "/dl/sub": None, "/dl/sub/deep": b"d", "/dl/void": None}
        if snap != want_dl:
            problems.append({"kind": "downloaded-tree", "got": sorted(snap), "want": sorted(want_dl)})
            return
        await client.remove("-x")
        await client.quit()

    try:
        try:
            w.run(main())
        except Hang:
            problems.append({"kind": "hang"})
        except Exception as exc:
            problems.append({"kind": "exception", "exc": repr(exc)[:300]})
        if not problems:
            want = {"/w": None, "/w/top": b"t", "/w/other": None, "/w/other/o": b"o"}
            if rig.snapshot() != want:
                problems.append({"kind": "remove", "got": sorted(rig.snapshot()), "want": sorted(want)})
        return problems, w.net.n_events
    finally:
        rig.close()


def dash_work(fallback):
    part = report.Partial()
    problems, nev = dash_tree(fallback)
    part.evaluations += 1
    part.traces += 1
    part.transitions += nev
    k = report.fp(["dash-tree", fallback])
    part.states.add(k)
    part.nontrivial.add(k)
    for p in problems[:1]:
        part.violation({"kind": p["kind"], "op": "dash-named tree", "fallback": fallback}, {"problem": p},
                       replay={"dash": fallback})
    return part


def unlistable_subdir(item):
    """a sub-directory of the tree cannot be listed (the account may not read it: 550): a recursive listing, a download
    or a removal of the tree either delivers the whole tree or raises - it never returns a part of it as if that were all"""
    fallback, op = item
    part = report.Partial()

    def users(a, base):
        return [a.User(base_path=base, permissions=[a.Permission("/"), a.Permission("/t/b", readable=False)])]

    rig = Rig(tree={"t": {"a": {"1.txt": b"1"}, "b": {"deep": {"2.txt": b"2"}, "3.txt": b"3"}, "c": {"4.txt": b"4"}}},
              users=users, server_kwargs={"block_size": 7})
    w = rig.world
    a = w.aioftp
    if fallback:
        rig.server.commands_mapping.pop("mlst")
        rig.server.commands_mapping.pop("mlsd")
    problems = []
    full = {"t/a", "t/a/1.txt", "t/b", "t/b/deep", "t/b/deep/2.txt", "t/b/3.txt", "t/c", "t/c/4.txt"}
    try:
        client = a.Client(path_io_factory=a.MemoryPathIO)
        out = {}

        async def main():
            await client.connect("127.0.0.1", 2121)
            await client.login()
            try:
                if op == "list":
                    out["got"] = sorted(str(p_) for p_, _ in await client.list("t", recursive=True))
                elif op == "list-iter":
                    got = []
                    async for p_, _ in client.list("t", recursive=True):
                        got.append(str(p_))
                    out["got"] = sorted(got)
                else:
                    await client.download("t", "/dl", write_into=True)
                    out["got"] = sorted(k for k in snapshot_client(client.path_io))
            except a.StatusCodeError as exc:
                out["raised"] = [str(c) for c in exc.received_codes]
            try:
                await client.quit()
            except Exception:  # noqa
                pass

        try:
            w.run(main())
        except Hang:
            problems.append({"kind": "hang"})
        except Exception as exc:  # noqa
            out["raised"] = [repr(exc)[:120]]
        if not problems and "raised" not in out:
            got = out.get("got") or []
            if op.startswith("list") and set(got) != full:
                problems.append({"kind": "partial-tree-returned-as-if-complete", "got": got, "missing": sorted(full - set(got))})
            if op == "download" and not any("2.txt" in g for g in got):
                problems.append({"kind": "partial-tree-returned-as-if-complete", "got": got})
        part.evaluations += 1
        part.traces += 1
        part.transitions += w.net.n_events
        k = report.fp(["unlistable", fallback, op])
        part.states.add(k)
        part.nontrivial.add(k)
        part.outcomes[report.fp([op, "raised" in out])] += 1
        for p in problems[:1]:
            part.violation({"kind": p["kind"], "op": op + " over an unlistable sub-directory", "fallback": fallback},
                           {"problem": p}, replay={"unlistable": [fallback, op]})
    finally:
        rig.close()
    return part


def linked_sources(item):
    """local sources on a real file system whose last component is a symbolic link (to a directory, to a file): the
    remote tree is named after the source as the caller wrote it - exactly as for a plain directory or file"""
    import os
    fallback, write_into = item
    part = report.Partial()
    rig = Rig(tree={"site": {}}, server_kwargs={"block_size": 7})
    w = rig.world
    a = w.aioftp
    if fallback:
        rig.server.commands_mapping.pop("mlst")
        rig.server.commands_mapping.pop("mlsd")
    problems = []
    tmp = backends.TempDir()
    try:
        root = tmp.path
        backends.populate_fs(root, {"releases": {"v42": {"a.txt": b"A", "sub": {"b.txt": b"B"}}},
                                    "logs": {"app-2026.log": b"LOG"}, "plain": {"p.txt": b"P"}})
        os.symlink("releases/v42", str(root / "current"))
        os.symlink("logs/app-2026.log", str(root / "latest.log"))
        os.symlink(str(root / "plain"), str(root / "abs-link"))
        client = a.Client(path_io_factory=a.PathIO)
        wants = {}

        async def main():
            await client.connect("127.0.0.1", 2121)
            await client.login()
            for k, (src, kind, content) in enumerate([("current", "dir", {"a.txt": b"A", "sub": None, "sub/b.txt": b"B"}),
                                                      ("latest.log", "file", b"LOG"),
                                                      ("abs-link", "dir", {"p.txt": b"P"}),
                                                      ("plain", "dir", {"p.txt": b"P"})]):
                dest = f"/site/d{k}"
                await client.make_directory(dest)
                if kind == "file" and write_into:
                    dest += "/renamed.log"          # (write_into: the destination is the file's own name)
                await client.upload(root / src, dest, write_into=write_into)
                top = dest if write_into and kind == "dir" else (dest + "/" + src)
                if kind == "file":
                    top = dest + "/" + src if not write_into else dest
                    wants[top] = content
                else:
                    wants[top] = None
                    for rel, v in content.items():
                        wants[top + "/" + rel] = v
            await client.quit()

        try:
            w.run(main())
        except Hang:
            problems.append({"kind": "hang"})
        except Exception as exc:  # noqa
            problems.append({"kind": "exception", "exc": repr(exc)[:300]})
        if not problems:
            snap = {k: v for k, v in rig.snapshot().items() if k.startswith("/site/d") and k.count("/") > 2 or k in wants}
            exp = dict(wants)
            got = {k: v for k, v in snap.items()}
            # directories made on the way (the d<k> themselves) are not the point
            for k in list(got):
                if k.count("/") == 2 and k not in exp:
                    del got[k]
            if got != exp:
                problems.append({"kind": "uploaded-tree-misnamed", "got": sorted(got), "want": sorted(exp)})
        part.evaluations += 1
        part.traces += 1
        part.transitions += w.net.n_events
        k = report.fp(["linked-sources", fallback, write_into])
        part.states.add(k)
        part.nontrivial.add(k)
        for p in problems[:1]:
            part.violation({"kind": p["kind"], "op": "upload of a linked source", "fallback": fallback, "write_into": write_into},
                           {"problem": p}, replay={"linked": [fallback, write_into]})
    finally:
        rig.close()
        tmp.cleanup()
    return part


def work(item):
    part = report.Partial()
    for case in item:
        problems, nev = scenario(case)
        part.evaluations += 1
        part.traces += 1
        part.transitions += nev
        k = report.fp({k: (repr(v) if k == "tree" else v) for k, v in case.items()})
        part.states.add(k)
        if case["kind"] == "dir" and case["tree"]:
            part.nontrivial.add(k)
        part.outcomes[report.fp(sorted(p["kind"] for p in problems))] += 1
        for p in problems[:1]:
            sig = {"kind": p["kind"], "op": case["op"], "source_kind": case["kind"], "write_into": case["write_into"],
                   "encoding": case.get("encoding", "utf-8"),
                   "dest_components": len([x for x in case["dest"].split("/") if x]) if case["op"] in ("upload", "download") else None}
            part.violation(sig, {"problem": p, "case": {k: (repr(v)[:200] if k == "tree" else v) for k, v in case.items()}},
                           replay={"case": {k: (_enc(v) if k == "tree" else v) for k, v in case.items()}})
    c0 = item[0]
    part.sample({k: (repr(v)[:120] if k == "tree" else v) for k, v in c0.items()}, limit=1)
    return part


def _enc(t):
    if isinstance(t, dict):
        return {k: _enc(v) for k, v in t.items()}
    return {"__bytes__": t.decode("latin-1")}


def _dec(t):
    if isinstance(t, dict) and "__bytes__" in t:
        return t["__bytes__"].encode("latin-1")
    return {k: _dec(v) for k, v in t.items()}


def build_items(tier):
    sources = all_sources(4 if tier == "quick" else 5)
    cases = []
    for kind, tree in sources:
        for fallback in (False, True):
            for cwd in ("/", "/w"):
                for dest in DESTS:
                    for write_into in (False, True):
                        if write_into and dest == "" and kind == "file":
                            continue
                        for block in ((1, 8192) if tier != "quick" else ((8192,) if kind == "dir" else (1, 8192))):
                            for op in ("upload", "download"):
                                if op == "download" and dest.startswith("/x") and tier == "quick" and fallback:
                                    continue
                                if op == "download" and "//" in dest:
                                    continue        # a local destination: how the client's file system reads it is its own business
                                cases.append({"op": op, "kind": kind, "tree": tree, "dest": dest,
                                              "write_into": write_into, "cwd": cwd, "block": block, "fallback": fallback})
                if kind == "dir":
                    for dest in ("abs", "rel", "empty"):
                        cases.append({"op": "list", "kind": kind, "tree": tree, "dest": dest, "write_into": False,
                                      "cwd": cwd, "block": 8192, "fallback": fallback})
                cases.append({"op": "remove", "kind": kind, "tree": tree, "dest": "", "write_into": False, "cwd": cwd,
                              "block": 8192, "fallback": fallback})
    # the same relative destination from several working directories on one client connection
    for kind, tree in sources:
        if kind == "dir" and count_nested(tree) > 3:
            continue
        for fallback in (False, True):
            for dest in ("d", "x/y"):
                for write_into in (False, True):
                    cases.append({"op": "upload-seq", "kind": kind, "tree": tree, "dest": dest, "write_into": write_into,
                                  "cwd": "/", "block": 8192, "fallback": fallback})
    # non-ASCII names through servers/clients configured with another encoding
    for kind, tree in sources:
        if kind != "dir" or count_nested(tree) > 3:
            continue
        for fallback in (False, True):
            for op, dest in (("upload", "x"), ("download", "x"), ("list", "abs"), ("remove", "")):
                cases.append({"op": op, "kind": kind, "tree": tree, "dest": dest, "write_into": False, "cwd": "/",
                              "block": 8192, "fallback": fallback, "encoding": "latin-1",
                              "names": {"a": "é", "b": "å b"}})
    # a second upload of the (changed) tree to the same destination
    for kind, tree in sources:
        if kind != "dir":
            continue
        for fallback in (False, True):
            for dest, write_into in (("x", False), ("x", True), ("", False), ("x/y", True)):
                cases.append({"op": "upload-again", "kind": kind, "tree": tree, "dest": dest, "write_into": write_into,
                              "cwd": "/w", "block": 8192, "fallback": fallback})
    # names made of what the listing formats use as separators
    for kind, tree in sources:
        if kind != "dir" or count_nested(tree) > 3:
            continue
        for names in ({"a": "old; new", "b": "x; Type=dir; y"}, {"a": "a -> b", "b": "Size=1;z"}, {"a": "~", "b": "x y  z"},
                      # siblings whose names differ in case only, or in their Unicode normalisation form only
                      {"a": "README", "b": "readme"}, {"a": "caf\u00e9", "b": "cafe\u0301"}):
            for fallback in (False, True):
                for op, dest in (("upload", "x"), ("download", "x"), ("list", "abs"), ("list", "rel"), ("remove", "")):
                    cases.append({"op": op, "kind": kind, "tree": tree, "dest": dest, "write_into": False, "cwd": "/",
                                  "block": 8192, "fallback": fallback, "names": names})
    # old entries on LIST-only servers: modification times on a leap day, New Year's Eve, the epoch, the far future
    for kind, tree in sources:
        if kind != "dir" or count_nested(tree) > 3:
            continue
        for mtime in (1709208000, 1704067199, 86400 * 400, 4102444800 - 86400, 951825600):
            for op, dest in (("download", "x"), ("list", "abs"), ("remove", ""), ("upload", "x")):
                cases.append({"op": op, "kind": kind, "tree": tree, "dest": dest, "write_into": False, "cwd": "/",
                              "block": 8192, "fallback": True, "mtime": mtime, "now": 1748736000})
    # backends that return short reads (legal for AbstractPathIO.read) on both sides
    for kind, tree in sources:
        if kind == "dir" and count_nested(tree) > 3:
            continue
        for cap in (1, 3):
            for op in ("upload", "download"):
                for block in (1, 8192):
                    cases.append({"op": op, "kind": kind, "tree": tree, "dest": "x", "write_into": False, "cwd": "/",
                                  "block": block, "fallback": False, "short_reads": cap})
    return [cases[i:i + 25] for i in range(0, len(cases), 25)], len(sources)


def count_nested(t):
    return sum(1 + (count_nested(v) if isinstance(v, dict) else 0) for v in t.values())


def run(tier, seed, t0):
    items, nsrc = build_items(tier)
    if seed:
        k = seed % len(items)
        items = items[k:] + items[:k]
    part = report.merge_all(report.pmap(work, items) + [dash_work(False), dash_work(True)]
                            + report.pmap(linked_sources, [(fb, wi) for fb in (False, True) for wi in (False, True)])
                            + report.pmap(unlistable_subdir, [(fb, op) for fb in (False, True) for op in ("list", "list-iter", "download")]))
    bounds = {"dash_names": "list / download / remove of a directory named -x by its bare relative name (MLSD and LIST-only)",
              "sources": nsrc, "max_nodes": 4 if tier == "quick" else 5, "names": ["a", "b"], "separator_names": ["old; new", "x; Type=dir; y", "a -> b", "Size=1;z", "~", "x y  z"], "near_duplicate_names": ["README / readme", "composed / decomposed café"], "destinations": DESTS, "write_into": [False, True],
              "remote_cwd": ["/", "/w"], "block_sizes": [1, 8192], "servers": ["MLSD", "LIST fallback"], "encodings": ["utf-8", "latin-1 with non-ASCII names (trees <= 3 nodes)"],
              "old_entries": "LIST-only server, entries dated 2024-02-29, 2023-12-31 23:59:59, 1971, 2099, 2000-02-29 seen from 2025-06-01",
              "short_reading_backends": "read() capped at 1 or 3 bytes on the client's and the server's backend (trees <= 3 nodes)",
              "ops": ["upload", "download", "list(recursive)", "remove",
                      "upload of the same relative destination from three working directories on one connection"]}
    return report.finish(
        PID, tier, seed, "model_checking", part, t0,
        rule="every (source tree, destination, write_into, cwd, block size, server flavour, operation) executed through the "
             "real client API; whole-tree comparison on the receiving side against the documented placement rule "
             "(destination/source-name by default, destination itself with write_into) plus 'nothing else changed'. "
             "Non-trivial = non-empty directory source.",
        bounds=bounds,
        assumptions=["environment model SimLoop/SimNet", "in-memory backends on both sides",
                     "file source with write_into and an empty destination is excluded (no name to write to)"])


def replay(path):
    data = json.loads(open(path).read())
    if "unlistable" in data["replay"]:
        part = unlistable_subdir(tuple(data["replay"]["unlistable"]))
        print(json.dumps([v["detail"] for v in part.violations], indent=1, default=repr))
        return 1 if part.violations else 0
    if "linked" in data["replay"]:
        part = linked_sources(tuple(data["replay"]["linked"]))
        print(json.dumps([v["detail"] for v in part.violations], indent=1, default=repr))
        return 1 if part.violations else 0
    if "dash" in data["replay"]:
        problems, _ = dash_tree(data["replay"]["dash"])
        print(json.dumps(problems, indent=1, default=repr))
        return 1 if problems else 0
    case = data["replay"]["case"]
    case["tree"] = _dec(case["tree"])
    problems, _ = scenario(case)
    print(json.dumps(problems, indent=1, default=repr))
    return 1 if problems else 0
