"""C11 The passive data-port pool neither loses nor duplicates ports.

E2 (all event sequences to a depth, canonical schedule, invariant after every
event) x E1 (curated start-up races under <= d schedule deviations) x bind
fault plans.  DESIGN.md §5 C11.
"""
import errno
import itertools
import json

from vf import ledger, report
from vf.explore import explore
from vf.rig import Rig
from vf.simloop import Chooser, ReplayDivergence, Livelock

PID = "C11"
PORTS = [30001, 30002, 30003]
LOGIN = "USER anonymous"


def _accounts(a, base):
    # several accounts without passwords: a session may change the account it is logged in with
    return [a.User("alice", None, base_path=base), a.User("bob", None, base_path=base), a.User(base_path=base)]


def _pasv_ok(r):
    return bool(r) and r[-1][0] in ("227", "229")


def run_case(case, chooser):
    """one execution; returns dict(problems, outcome, trace, events)"""
    pool = case["pool"]
    n = case["n"]
    problems = []
    host = case.get("host", "127.0.0.1")
    # data_ports may be any iterable: a list, or a one-shot generator
    ports_arg = (p for p in list(pool)) if case.get("ports_as") == "generator" else list(pool)
    rig = Rig(chooser=chooser, n_sessions=n, tree={"f": b"abc"}, host=host, start_kwargs=case.get("start_kwargs"),
              **({"users": _accounts} if case.get("accounts") else {}),
              server_kwargs={"data_ports": ports_arg, "wait_future_timeout": 1, **case.get("server_kwargs", {}),
                             **({"socket_timeout": case["socket_timeout"]} if case.get("socket_timeout") else {})})
    try:
        w = rig.world
        chooser.active = False
        w.net.bind_plan = {int(k): list(v) for k, v in case.get("plan", {}).items()}
        for i in range(n):
            rig.ev(i, "@connect")
            rig.ev(i, LOGIN)
        alive = [True] * n
        replies = []
        closed_server = False
        for k, (i, e) in enumerate(case["events"]):
            if k >= case.get("explore_from", 0):
                chooser.active = True
            if e == "@start-again":
                # start() called a second time on the running server (another listening address); sessions accepted
                # before keep working and give their ports back when they end
                chooser.active = False
                try:
                    w.run(rig.server.start(host, 2122))
                except Exception as exc:
                    problems.append({"kind": "second-start-failed", "exc": repr(exc)[:200]})
                continue
            if e == "@close-server":
                chooser.active = False
                closed_server = True
                break
            pool_before = ledger.pool_ports(rig.server)
            attempts_before = dict(w.net.bind_attempts)
            attempts_now = lambda port: w.net.bind_attempts.get(port, 0)     # noqa
            had_listener = None
            r = rig.ev(i, e)
            replies.append(r)
            if e.endswith("!"):
                continue
            chooser.active = chooser.active  # noqa (documentation: stays as set)
            rig.collect()
            # liveness bookkeeping (black box): the server closed the control connection
            for j, s in enumerate(rig.sessions):
                if s.ctl is not None and (s.ctl.closed_by_peer or s.ctl.t.closing):
                    alive[j] = False
            # invariant at every quiescent point (the white-box owner lookup needs the connection table, which a second
            # start() resets: those cases are judged at the end only)
            if not case.get("final_only"):
                for p in ledger.pool_invariant(w, rig.server, pool):
                    problems.append({"after": [i, e], **p})
            # exhaustion => 421 ; free port and no faults => success
            if e in ("PASV", "EPSV") and r is not None and alive[i] is not None:
                codes = [c for c, _ in r]
                if codes[-1:] == ["421"] and pool_before is not None:
                    # "exhaustion is answered with 421": a port that was in the pool and whose next bind would have
                    # succeeded (nobody listens on it, the plan has no fault for that attempt) was there to be had
                    def would_bind(port):
                        if port in w.net.listeners:
                            return False
                        plan = w.net.bind_plan.get(port) or []
                        n_att = attempts_before.get(port, 0)
                        return not (n_att < len(plan) and plan[n_att] != "ok" and not str(plan[n_att]).startswith("slow:"))
                    free = [p_ for p_ in pool_before if would_bind(p_) and attempts_now(p_) == attempts_before.get(p_, 0)]
                    if free:
                        problems.append({"kind": "421-although-a-configured-port-was-free-and-untried", "ports": free,
                                         "pool_before": pool_before, "after": [i, e]})
                if codes and codes[-1] in ("227", "229"):
                    port = rig.sessions[i].pasv_port
                    if port not in pool:
                        problems.append({"kind": "advertised-port-not-configured", "port": port, "after": [i, e]})
                    elif port not in [l.port for l in w.net.all_listeners if not l.closed]:
                        problems.append({"kind": "advertised-port-not-listening", "port": port, "after": [i, e]})
        chooser.active = False
        if closed_server:
            for p in ledger.closed_problems(w, rig.server):
                problems.append({"after": "server.close()", **p})
            pl = ledger.pool_ports(rig.server)
            if pl is not None and sorted(pl) != sorted(pool):
                problems.append({"kind": "pool-after-close", "pool": pl})
            # a closed server can be started again and serves the whole pool again
            if pool and not problems:
                try:
                    w.start_server(rig.server, host=host)
                    from vf.world import Session
                    got = []
                    for k in range(len(pool)):
                        s = Session(w, name=f"again{k}", host=host)
                        s.connect()
                        s.login()
                        r = s.passive("PASV" if ":" not in host and not case.get("server_kwargs") else "EPSV")
                        code = r[-1][0] if r else None
                        if code not in ("227", "229") or s.pasv_port not in pool or s.pasv_port in got:
                            problems.append({"kind": "restarted-server-port-missing", "k": k, "code": code,
                                             "port": s.pasv_port, "got": got})
                        got.append(s.pasv_port)
                except Exception as exc:
                    problems.append({"kind": "restart-failed", "exc": repr(exc)[:200]})
            outcome = ("closed", tuple(sorted(pl or ())))
        else:
            # end every session, then the pool must be whole again
            for i, s in enumerate(rig.sessions):
                if s.ctl is not None:
                    s.peer.vanish()
            w.settle(case.get("settle", 0))
            for p in ledger.pool_invariant(w, rig.server, pool):
                problems.append({"after": "all-gone", **p})
            pl = ledger.pool_ports(rig.server)
            if pl is not None and sorted(pl) != sorted(pool):
                problems.append({"kind": "pool-not-whole-after-all-sessions-gone", "pool": pl,
                                 "configured": sorted(pool)})
            if not case.get("final_only"):
                for p in ledger.released_problems(w, rig.server):
                    problems.append({"after": "all-gone", **p})
            # black-box probe: |pool| fresh sessions get |pool| distinct configured ports, the next one 421
            w.net.bind_plan = {}
            got = []
            probes = []
            for k in range(len(pool) + 1):
                from vf.world import Session
                s = Session(w, name=f"probe{k}", host=host)
                probes.append(s)
                s.connect()
                s.login()
                r = s.passive("PASV" if ":" not in host and not case.get("server_kwargs") else "EPSV")
                code = r[-1][0] if r else None
                if k < len(pool):
                    if code not in ("227", "229") or s.pasv_port not in pool or s.pasv_port in got:
                        problems.append({"kind": "probe-port-missing", "k": k, "code": code, "port": s.pasv_port,
                                         "got": got})
                    got.append(s.pasv_port)
                else:
                    if code != "421":
                        problems.append({"kind": "probe-exhaustion-not-421", "code": code})
            outcome = ("probe", tuple(got))
        trace = report.fp(w.net.trace)
        return {"problems": problems, "outcome": report.fp([outcome, [r for r in replies]]), "trace": trace,
                "events": w.net.n_events}
    finally:
        rig.close()


# --------------------------------------------------------------------------

def _seqs(n_sessions, alphabet, depth):
    """all event sequences up to depth; events after a session ended are pruned"""
    out = []

    def rec(prefix, dead):
        if prefix:
            out.append(list(prefix))
        if len(prefix) == depth:
            return
        for i in range(n_sessions):
            if i in dead:
                continue
            for e in alphabet:
                nd = dead | {i} if e in ("QUIT", "@drop", "@rst") else dead
                prefix.append((i, e))
                rec(prefix, nd)
                prefix.pop()

    rec([], frozenset())
    return out


RACES = [
    # (name, n, pool size, events, explore_from)
    ("pasv-then-drop", 1, 2, [(0, "PASV!"), (0, "@drop")], 0),
    ("epsv-then-drop", 1, 2, [(0, "EPSV!"), (0, "@drop")], 0),
    ("pasv-then-rst", 1, 2, [(0, "PASV!"), (0, "@rst")], 0),
    ("pasv-then-quit", 1, 2, [(0, "PASV!"), (0, "QUIT")], 0),
    ("epsv-then-quit", 1, 1, [(0, "EPSV!"), (0, "QUIT")], 0),
    ("pasv-pasv-drop", 1, 2, [(0, "PASV"), (0, "PASV!"), (0, "@drop")], 1),
    ("pasv-data-list-drop", 1, 2, [(0, "PASV"), (0, "@data"), (0, "LIST!"), (0, "@drop")], 2),
    ("two-sessions-race-one-port", 2, 1, [(0, "PASV!"), (1, "PASV!"), (0, "@drop"), (1, "PASV")], 0),
    ("two-sessions-drop-then-pasv", 2, 1, [(0, "PASV!"), (0, "@drop!"), (1, "PASV")], 0),
    ("pasv-then-user", 1, 1, [(0, "PASV!"), (0, "USER anonymous")], 0),
    ("pasv-then-other-user", 1, 1, [(0, "PASV!"), (0, "USER alice")], 0, {"accounts": True}),
    ("pasv-user-pasv", 1, 2, [(0, "PASV"), (0, "USER bob!"), (0, "PASV")], 1, {"accounts": True}),
    ("pasv-during-server-close", 1, 2, [(0, "PASV!"), (0, "@close-server")], 0),
    ("three-sessions", 3, 2, [(0, "PASV!"), (1, "PASV!"), (2, "PASV!"), (1, "@drop")], 0),
    # a client that does not wait for the reply (pipelining is just another network schedule)
    ("pasv-pasv-pipelined", 1, 2, [(0, "PASV!"), (0, "PASV")], 0),
    ("pasv-epsv-pipelined", 1, 3, [(0, "PASV!"), (0, "EPSV!"), (0, "PASV")], 0),
    ("epsv-epsv-pipelined-quit", 1, 2, [(0, "EPSV!"), (0, "EPSV!"), (0, "QUIT")], 0),
]


def _work(item):
    kind, case, bound, kinds, max_exec = item
    part = report.Partial()
    try:
        for ch, res in explore(lambda c: run_case(case, c), bound, kinds=kinds, max_exec=max_exec):
            if ch is None:
                part.caps.append({"case": case["name"], "cap": max_exec})
                break
            part.evaluations += 1
            part.traces += 1
            part.transitions += res["events"]
            part.states.add(res["trace"])
            part.outcomes[res["outcome"]] += 1
            nontrivial = ch.deviations > 0 or bool(case.get("plan")) or kind != "seq"
            if nontrivial:
                part.nontrivial.add(res["trace"])
            part.counters["choice_points"] += len(ch.points)
            part.counters[f"exec_dev{ch.deviations}"] += 1
            if ch.deviations or len(part.samples) < 1:
                part.sample({"case": case["name"], "events": case["events"], "pool": case["pool"],
                             "plan": case.get("plan", {}), "choices": ch.choices, "points": len(ch.points)}, limit=2)
            for p in res["problems"]:
                sig = {"kind": p.get("kind"), "family": kind}
                part.violation(sig, {"problem": p, "case": case["name"]},
                               replay={"case": case, "choices": ch.choices, "kinds": sorted(kinds or [])})
                break
    except (ReplayDivergence,) as exc:
        part.infra.append(f"replay divergence in {case['name']}: {exc}")
    return part


def build_items(tier):
    items = []
    kinds_q = ["early", "order", "batch"]
    kinds_t = ["early", "order", "batch", "split"]
    depth = 3 if tier == "quick" else 5
    # family A: all sequences, canonical schedule
    alpha = ["PASV", "EPSV", "@data", "LIST", "QUIT", "@drop"]
    for psize in (1, 2):
        for seq in _seqs(2, alpha, depth):
            items.append(("seq", {"name": f"seq-p{psize}", "pool": PORTS[:psize], "n": 2, "events": seq}, 0, [], None))
    # pool of size 0 and 3 on short sequences
    for psize in (0, 3):
        for seq in _seqs(2, ["PASV", "EPSV", "QUIT", "@drop"], 2):
            items.append(("seq", {"name": f"seq-p{psize}", "pool": PORTS[:psize], "n": 2, "events": seq}, 0, [], None))
    # the same on an IPv6 control connection (PASV is answered 503 there, EPSV works)
    for psize in (1, 2):
        for seq in _seqs(2, ["PASV", "EPSV", "@data", "LIST", "QUIT", "@drop"], depth - 1):
            items.append(("seq", {"name": f"seq6-p{psize}", "pool": PORTS[:psize], "n": 2, "events": seq, "host": "::1"},
                          0, [], None))
    # several accounts: a session logs in again (as the same, as another, as an unknown account) with a listener open
    for psize in (1, 2):
        # (thorough: one step deeper over the commands alone)
        acc_alpha = ["PASV", "EPSV", "USER alice", "USER bob", "USER nobody", "@data", "LIST", "QUIT"]
        acc_seqs = _seqs(2, acc_alpha, 3)
        if tier != "quick":
            acc_seqs += [q for q in _seqs(2, ["PASV", "EPSV", "USER alice", "USER bob", "USER nobody", "QUIT"], 4) if len(q) == 4]
        for seq in acc_seqs:
            if any(e.startswith("USER") for _, e in seq) and any(e in ("PASV", "EPSV") for _, e in seq):
                items.append(("seq", {"name": f"seq-accounts-p{psize}", "pool": PORTS[:psize], "n": 2, "events": seq,
                                      "accounts": True}, 0, [], None))
    # a forced PASV response address (a server behind NAT): a dotted quad, or a host name the 227 reply cannot carry -
    # however the command ends, the port it took is in the pool or bound
    for forced in ("10.1.2.3", "localhost", "ftp.example.com", ""):
        for psize in (1, 2):
            for seq in _seqs(2, ["PASV", "EPSV", "QUIT", "@drop"], 3):
                items.append(("seq", {"name": f"seq-forced-p{psize}", "pool": PORTS[:psize], "n": 2, "events": seq,
                                      "server_kwargs": {"ipv4_pasv_forced_response_address": forced}}, 0, [], None))
    # family C: three sessions on two ports
    for seq in _seqs(3, ["PASV", "QUIT", "@drop"], 3):
        items.append(("seq", {"name": "seq3-p2", "pool": PORTS[:2], "n": 3, "events": seq}, 0, [], None))
    # family B: start-up races under schedule deviations
    bound = 1 if tier == "quick" else 3
    for name, n, psize, events, ef, *more in RACES:
        case = {"name": name, "pool": PORTS[:psize], "n": n, "events": events, "explore_from": ef, **(more[0] if more else {})}
        items.append(("race", case, bound, kinds_q if tier == "quick" else kinds_t, 4000 if tier == "quick" else 200000))
        if name in ("pasv-then-drop", "pasv-pasv-drop", "pasv-epsv-pipelined", "pasv-then-quit", "two-sessions-race-one-port"):
            case6 = dict(case, name=name + "-ipv6", host="::1")
            items.append(("race", case6, bound, kinds_q if tier == "quick" else kinds_t, 4000 if tier == "quick" else 60000))
    # server life cycle: close (then start again) after short histories, with the pool given as a list or as a generator
    for ports_as in ("list", "generator"):
        for psize in (1, 2):
            for pre in ([], [(0, "PASV")], [(0, "PASV"), (0, "QUIT")], [(0, "EPSV"), (0, "@data"), (0, "LIST")],
                        [(0, "PASV"), (1, "PASV")], [(0, "PASV"), (0, "@drop")]):
                items.append(("seq", {"name": f"life-{ports_as}-p{psize}", "pool": PORTS[:psize], "n": 2,
                                      "events": pre + [(0, "@close-server")], "ports_as": ports_as}, 0, [], None))
    # start() twice
    for psize in (1, 2):
        for pre, post in (([(0, "PASV")], [(0, "QUIT")]), ([(0, "EPSV"), (0, "@data")], [(0, "@drop")]),
                          ([(0, "PASV"), (1, "PASV")], [(0, "QUIT"), (1, "@drop")]), ([], [(0, "PASV"), (0, "QUIT")])):
            items.append(("seq", {"name": f"start-twice-p{psize}", "pool": PORTS[:psize], "n": 2,
                                  "events": pre + [(0, "@start-again")] + post, "final_only": True}, 0, [], None))
    # bind fault plans: every assignment of {ok, EADDRINUSE, EACCES} to the first two attempts per port
    outcomes = ["ok", errno.EADDRINUSE, errno.EACCES]
    fault_scripts = [
        ("plan-pasv-quit", 1, [(0, "PASV"), (0, "QUIT")]),
        ("plan-pasv-pasv2", 2, [(0, "PASV"), (1, "PASV"), (0, "@drop"), (1, "EPSV")]),
        ("plan-pasv-drop-race", 1, [(0, "PASV!"), (0, "@drop")]),
    ]
    for psize in (1, 2):
        ports = PORTS[:psize]
        for combo in itertools.product(outcomes, repeat=2 * psize):
            plan = {str(p): list(combo[2 * k:2 * k + 2]) for k, p in enumerate(ports)}
            for name, n, events in fault_scripts:
                b = 1 if name.endswith("race") else 0
                items.append(("plan", {"name": name, "pool": ports, "n": n, "events": events, "plan": plan},
                              b, kinds_q, 3000))
    # three attempts per port over three sessions one after the other: a port that was busy earlier (and carries a
    # larger priority number since) is still tried before the session is told there is none
    ports = PORTS[:2]
    for combo in itertools.product(outcomes[:2], repeat=5):
        plan = {str(ports[0]): list(combo[:3]), str(ports[1]): list(combo[3:])}
        items.append(("plan", {"name": "plan-three-sessions", "pool": ports, "n": 3, "plan": plan,
                               "events": [(0, "PASV"), (0, "QUIT"), (1, "PASV"), (1, "QUIT"), (2, "EPSV"), (2, "QUIT")]},
                      0, kinds_q, 3000))
    # keyword arguments given to Server.start() (they are handed on to every passive listener as well)
    for kw in ({"reuse_address": True}, {"reuse_address": False}, {"reuse_port": True}, {"backlog": 7},
               {"reuse_address": True, "backlog": 3}):
        for psize in (1, 2):
            for name, n, events in (("kw-pasv-list-quit", 1, [(0, "PASV"), (0, "@data"), (0, "LIST"), (0, "QUIT")]),
                                    ("kw-epsv-drop", 1, [(0, "EPSV"), (0, "@drop")]),
                                    ("kw-two-sessions", 2, [(0, "PASV"), (1, "EPSV"), (0, "QUIT"), (1, "PASV"), (1, "QUIT")])):
                items.append(("plan", {"name": name, "pool": PORTS[:psize], "n": n, "events": events, "plan": {},
                                       "start_kwargs": kw}, 0, kinds_q, 3000))
    # a listener start-up that takes 5 s (slow resolver, stalled loop), without and with a socket_timeout shorter
    # than that; the session may die of it, the port may not get lost or doubled
    for psize in (1, 2):
        ports = PORTS[:psize]
        for st in (None, 2):
            for slow_ports in ([ports[0]], ports):
                plan = {str(p): ["slow:5"] + (["slow:5"] if st else []) for p in slow_ports}
                for name, n, events in fault_scripts + [("plan-pasv-wait-pasv", 1, [(0, "PASV"), (0, "@wait 6"), (0, "EPSV"), (0, "QUIT")])]:
                    items.append(("plan", {"name": name + "-slow", "pool": ports, "n": n, "events": events, "plan": plan,
                                           "socket_timeout": st, "settle": 20}, 1 if name.endswith("race") else 0, kinds_q, 3000))
    return items


def run(tier, seed, t0):
    items = build_items(tier)
    if seed:
        k = seed % len(items)
        items = items[k:] + items[:k]
    parts = report.pmap(_work, items)
    part = report.merge_all(parts)
    bounds = {"pools": [0, 1, 2, 3], "sessions": "1..3", "control_connection": ["IPv4", "IPv6 (::1)"],
              "life_cycle": "close() after 6 short histories, then start() again and probe the whole pool; data_ports as list / generator", "sequence_depth": 3 if tier == "quick" else 5,
              "deviation_bound_races": 1 if tier == "quick" else 3,
              "bind_plans": "3^(2*|pool|) for |pool| in {1,2}", "start_kwargs": "reuse_address / reuse_port / backlog given to Server.start()", "slow_start_up": "listener start-up of 5 virtual seconds, socket_timeout none / 2 s", "cases": len(items)}
    return report.finish(
        PID, tier, seed, "model_checking", part, t0,
        rule="each case = (pool, sessions, event script, bind plan) executed on the real aioftp.Server inside SimLoop; "
             "seq: every event sequence to the depth (canonical schedule); race: every schedule with <= d deviations "
             "(early delivery / reordering / batching [/ split]); plan: every bind-fault assignment. Non-trivial = "
             "execution with a deviation, a bind fault, or a race script; distinct by delivery-trace hash.",
        bounds=bounds,
        assumptions=["environment model SimLoop/SimNet (validated by checks of vf.conformance)",
                     "pool contents read white-box from server.available_data_ports when present, probe is black-box"],
    )


def replay(path):
    data = json.loads(open(path).read())
    rp = data["replay"]
    ch = Chooser(rp["choices"], rp.get("kinds") or None)
    res = run_case(rp["case"], ch)
    print(json.dumps({"case": rp["case"], "choices": rp["choices"], "problems": res["problems"]}, indent=1, default=repr))
    return 1 if res["problems"] else 0
