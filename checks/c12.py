"""C12 A session that ends - at any point, for any reason - releases everything it held.

E1 fault enumeration: script corpus x backend x cut kind x cut position (every
delivered network event k; for server.close() also every following loop
iteration j) x <= d schedule deviations after the cut.  DESIGN.md §5 C12.
"""
import asyncio
import json

from vf import ledger, report, backends
from vf.explore import explore
from vf.rig import Rig
from vf.simloop import Chooser, ReplayDivergence
from vf.world import Session
from checks import corpus

PID = "C12"
BACKENDS = {
    "memory": dict(backend="memory"),
    "slow": dict(backend="slow", delay=0.125),
    "async": dict(backend="async"),
}


# server variants: speed limits that make every block wait in the throttle; a user manager that suspends
VARIANTS = {
    "plain": {},
    "throttled": {"server_kwargs": {"read_speed_limit": 4, "write_speed_limit": 4}},
    "slow-um": {"slow_um": True},
    # accounts with one connection each: the place in the account is one more thing a session holds
    "limited": {"limited": True},
    # a kernel that takes only a few bytes of what the server writes (the rest of a finished download sits in the
    # transport's own buffer) and a data peer that has stopped reading but stays connected
    "tail": {"sndbuf": 4, "window": 4096},
    # the data connection comes from another address than the control connection (a peer with two addresses, or a
    # third party the client has a transfer sent to)
    "other-address": {"data_other": True},
    # the control connection comes in over IPv6 (PASV is refused there, EPSV served)
    "ipv6": {"host": "::1"},
}
VARIANT_SCRIPTS = {
    "throttled": ["retr", "stor", "list", "rest-retr", "retr-then-quit"],
    "slow-um": ["login-only", "pwd", "retr", "retr-then-quit", "relogin"],
    "ipv6": ["pasv-twice", "pasv-no-transfer", "list", "retr"],
    "limited": ["login-only", "relogin", "user-only", "bad-pass", "user-then-other", "retr"],
    "other-address": ["retr", "stor", "list", "pasv-twice", "retr-then-quit"],
    "tail": ["retr-dstop", "list-dstop", "mlsd-dstop", "retr-dstop-quit", "retr-dstop-data", "list-dstop-data-list"],
}
# scripts of the variants only
EXTRA_SCRIPTS = {
    "retr-dstop": ["EPSV", "@data", "@dstop", "RETR d/f", "PWD"],
    "list-dstop": ["PASV", "@data", "@dstop", "LIST", "PWD"],
    "mlsd-dstop": ["EPSV", "@data", "@dstop", "MLSD d", "PWD"],
    "retr-dstop-quit": ["EPSV", "@data", "@dstop", "RETR d/f", "QUIT"],
    # ... and the peer makes its next data connection while the tail of the last transfer is still unsent
    "retr-dstop-data": ["EPSV", "@data", "@dstop", "RETR d/f", "@data", "PWD"],
    "list-dstop-data-list": ["PASV", "@data", "@dstop", "LIST", "@data", "LIST d", "PWD"],
    "user-only": ["USER bob"],
    "bad-pass": ["USER bob", "PASS bad", "USER bob"],
    "user-then-other": ["USER bob", "PASS pw", "USER carol", "USER anonymous"],
}


def _limited_users(a, base):
    return [a.User(base_path=base, maximum_connections=1), a.User("bob", "pw", base_path=base, maximum_connections=1),
            a.User("carol", "pw", base_path=base, maximum_connections=1)]


def _slow_users(a, base):
    from vf.usermgr import make_slow_manager
    return make_slow_manager(a, [a.User(base_path=base), a.User("bob", "pw", base_path=base)])


class Cut(Exception):
    pass


def run_cut(case, chooser):
    script = {**corpus.SCRIPTS, **EXTRA_SCRIPTS}[case["script"]]
    n = 2 if case.get("second") else 1
    spy = backends.SpyControl()
    variant = VARIANTS[case.get("variant", "plain")]
    if variant.get("data_other"):
        script = ["@data-other" if e == "@data" else e for e in script]
    skw = dict(corpus.SERVER_KW)
    skw.update(variant.get("server_kwargs", {}))
    rig = Rig(chooser=chooser, n_sessions=n, tree=corpus.TREE, window=variant.get("window", case.get("window", 1)), spy=spy,
              server_kwargs=skw, users=_slow_users if variant.get("slow_um") else _limited_users if variant.get("limited") else None,
              via_run=case["cut"] == "cancel-run", host=variant.get("host", "127.0.0.1"), **BACKENDS[case["backend"]])
    problems = []
    try:
        w = rig.world
        if variant.get("sndbuf") is not None:
            w.net.sndbuf = variant["sndbuf"]
        explore_all = case.get("explore_all", False)
        chooser.active = False
        for i in range(n):
            rig.ev(i, "@connect")
            rig.ev(i, "USER anonymous")
        baseline_tasks = set(ledger.tasks_alive(w))
        w.net.n_events = 0
        state = {"cut": False, "target_iter": None, "close_task": None}
        kind, k, j = case["cut"], case["k"], case.get("j", 0)
        # "without waiting for further input": the clock is frozen after the cut, except that a backend which needs
        # time for each call gets the time for 6 calls (less than any timeout configured on this server), and that a
        # throttled session may finish the throttle pause it is in before it looks at its sockets again (the longest
        # pause here is 10 s; no other timer is configured).  server.close() gets no time at all.
        grace = 0.75 if case["backend"] == "slow" else 0
        if case.get("variant") == "throttled" and kind != "close":
            grace = 12

        async def closing():
            await rig.server.close()
            # what is still open at the very moment close() returns (not one loop turn later)
            me = asyncio.current_task()
            state["at_return"] = {
                "listeners": [l.port for l in w.net.all_listeners if not l.closed and l.owner == "server"],
                "sockets": [x.name for x in ledger.server_side_open(w)],
                "tasks": sorted(ledger._tname(x) for x in ledger.tasks_alive(w) if x is not me),
            }

        def do_cut():
            state["cut"] = True
            chooser.active = True
            # from here on the clock is frozen (see the grace below): whatever the session held must be released
            # without the help of a timer that has yet to expire
            state["deadline"] = w.loop.time() + grace
            w.loop.time_limit = state["deadline"]
            if kind == "fin":
                rig.sessions[0].peer.vanish()
            elif kind == "ctl-fin":
                rig.sessions[0].ctl.close()          # only the control connection goes away
            elif kind == "rst":
                rig.sessions[0].peer.vanish(reset=True)
            elif kind == "close":
                state["close_task"] = w.loop.create_task(closing())
            elif kind == "cancel-run":
                # the server was started with Server.run(): cancelling that call is how it is shut down
                rig.run_task.cancel()
                state["close_task"] = rig.run_task
            else:
                # server.close() while another client is just connecting (handshake finished before / attempted after)
                def late_connect():
                    try:
                        state["late"] = w.peer("late").connect(2121)
                    except ConnectionRefusedError:
                        state["late"] = None
                if kind == "connect+close":
                    late_connect()
                state["close_task"] = w.loop.create_task(closing())
                if kind == "close+connect":
                    late_connect()

        def on_event(nev):
            if state["cut"] or nev != k:
                return
            if j == 0:
                do_cut()
            else:
                state["target_iter"] = w.loop.iterations + j

        def on_iter(it):
            if not state["cut"] and state["target_iter"] is not None and it >= state["target_iter"]:
                do_cut()

        m = case.get("m")

        def on_time(n):
            # the server is waiting for a timer (a throttle pause, a slow backend call) and nothing else can happen
            if not state["cut"] and m is not None and n - adv0 == m:
                do_cut()

        adv0 = w.loop.time_advances
        w.net.on_event = on_event
        w.loop.iter_hook = on_iter
        w.loop.time_hook = on_time
        chooser.active = explore_all
        if k == 0:
            from vf.world import Running
            with Running(w.loop):
                do_cut()
        for e in script:
            if state["cut"]:
                break
            rig.ev(0, e)
        reached = state["cut"]
        w.loop.time_hook = None
        if not reached:
            # the script has fewer than k events: nothing to check in this execution
            return {"problems": [], "reached": False, "trace": report.fp(w.net.trace), "events": w.net.n_events,
                    "outcome": "not-reached", "advances": w.loop.time_advances - adv0}
        w.settle(max(0.0, state["deadline"] - w.loop.time()))
        chooser.active = False
        if kind in ("fin", "rst", "ctl-fin"):
            s0 = rig.sessions[0]
            mine = [t for t in w.net.all_transports if t.side == "server" and t.peer is not None
                    and t.peer.side == s0.peer.name and t.accepted and t.held()]
            if mine:
                problems.append({"kind": "server-socket-of-ended-session-open",
                                 "which": ["control" if t.get_extra_info("sockname")[1] == 2121 else "data" for t in mine]})
            if n == 1:
                for p in ledger.released_problems(w, rig.server, spy=spy):
                    problems.append(p)
                left = [t for t in ledger.tasks_alive(w) if t not in baseline_tasks]
                if left:
                    problems.append({"kind": "tasks-left", "names": sorted(ledger._tname(x) for x in left)})
            else:
                conns = ledger.live_connections(rig.server)
                if conns is not None and len(conns) != 1:
                    problems.append({"kind": "connection-table", "n": len(conns), "expected": 1})
                ls = ledger.server_listeners_open(w)
                if ls:
                    problems.append({"kind": "passive-listener-open", "ports": [l.port for l in ls]})
                if spy.leaked():
                    problems.append({"kind": "file-handle-open", "paths": spy.leaked()})
                left = [t for t in ledger.tasks_alive(w) if t not in baseline_tasks]
                if left:
                    problems.append({"kind": "tasks-left", "names": sorted(ledger._tname(x) for x in left)})
                # the other session must be untouched
                s1 = rig.sessions[1]
                rig.ev(1, "EPSV")
                rig.ev(1, "@data")
                r = rig.ev(1, "RETR o")
                codes = [c for c, _ in (r or [])]
                if codes != ["150", "226"] or s1.data is None or s1.data.received != corpus.OTHER:
                    problems.append({"kind": "other-session-disturbed", "codes": codes,
                                     "data": None if s1.data is None else s1.data.received.decode("latin-1")})
                s1.peer.vanish()
                w.settle(grace)
            if variant.get("limited") and n == 1 and not problems:
                # the place the ended session had in its account is free again: each account can be logged into
                for name, pw in (("anonymous", None), ("bob", "pw"), ("carol", "pw")):
                    s = Session(w, name="after-" + name, advance=grace)
                    s.connect()
                    r = s.cmd("USER " + name)
                    if pw is not None and r and r[-1][0] == "331":
                        r = s.cmd("PASS " + pw)
                    if not r or r[-1][0] != "230":
                        problems.append({"kind": "account-still-occupied-by-ended-session", "account": name,
                                         "reply": r[-1] if r else None})
                    s.peer.vanish()
                    w.settle(grace)
            for p in ledger.closed_problems(w, rig.server, spy=spy, advance=grace):
                problems.append(p)
        else:
            t = state["close_task"]
            if not t.done():
                problems.append({"kind": "server-close-did-not-complete", "why": "pending"})
            elif kind == "cancel-run":
                if not t.cancelled():
                    problems.append({"kind": "server-close-did-not-complete", "why": "run() ended with " + repr(t.exception())})
            elif t.cancelled() or t.exception() is not None:
                problems.append({"kind": "server-close-did-not-complete", "why": repr(t.exception())})
            at = state.get("at_return")
            if at and at["listeners"]:
                problems.append({"kind": "listener-open-when-close-returns", "ports": at["listeners"]})
            if at and at["sockets"]:
                problems.append({"kind": "server-transport-open-when-close-returns", "names": at["sockets"]})
            if at and at["tasks"]:
                problems.append({"kind": "tasks-alive-when-close-returns", "names": at["tasks"]})
            left = ledger.tasks_alive(w)
            if left:
                problems.append({"kind": "tasks-left", "names": sorted(ledger._tname(x) for x in left)})
            op = ledger.server_side_open(w)
            if op:
                problems.append({"kind": "server-transport-open-after-close", "names": [x.name for x in op]})
            ls = [l for l in w.net.all_listeners if not l.closed and l.owner == "server"]
            if ls:
                problems.append({"kind": "listener-open-after-close", "ports": [l.port for l in ls]})
            if spy.leaked():
                problems.append({"kind": "file-handle-open-after-close",
                                 "paths": spy.leaked()})
            conns = ledger.live_connections(rig.server)
            if conns:
                problems.append({"kind": "connection-table-not-empty", "n": len(conns)})
        # "exception was never retrieved" reports are not a release failure; counted only
        errs = w.loop_errors()
        return {"problems": problems, "reached": True, "trace": report.fp(w.net.trace), "events": w.net.n_events,
                "loop_errors": len(errs), "outcome": report.fp([sorted(p["kind"] for p in problems)])}
    finally:
        rig.close()


def count_events(script, backend, second, variant="plain", advances=False):
    """number of network events (or of virtual-time advances) of the fault-free run"""
    case = {"script": script, "backend": backend, "cut": "fin", "k": 10 ** 9, "second": second, "variant": variant}
    ch = Chooser()
    res = run_cut(case, ch)
    return res["advances"] if advances else res["events"]


def _work(item):
    case, bound, kinds, max_exec = item
    part = report.Partial()
    try:
        for ch, res in explore(lambda c: run_cut(case, c), bound, kinds=kinds, max_exec=max_exec):
            if ch is None:
                part.caps.append({"case": _name(case), "cap": max_exec})
                break
            if not res["reached"]:
                continue
            part.evaluations += 1
            part.traces += 1
            part.transitions += res["events"]
            part.states.add(res["trace"])
            part.nontrivial.add(res["trace"])
            part.outcomes[res["outcome"]] += 1
            part.counters[f"exec_dev{ch.deviations}"] += 1
            part.counters["cut_" + case["cut"]] += 1
            part.counters["loop_exception_reports"] += res.get("loop_errors", 0)
            if ch.deviations:
                part.sample({"case": case, "choices": ch.choices}, limit=2)
            for p in res["problems"]:
                sig = {"kind": p["kind"], "script": case["script"], "cut": case["cut"],
                       "backend_suspends": case["backend"] != "memory"}
                if case.get("variant", "plain") != "plain":
                    sig["variant"] = case["variant"]
                part.violation(sig, {"problem": p, "case": case, "deviations": ch.deviations},
                               replay={"case": case, "choices": ch.choices, "kinds": sorted(kinds or [])})
    except ReplayDivergence as exc:
        part.infra.append(f"replay divergence in {_name(case)}: {exc}")
    return part


def _name(case):
    at = f"t{case['m']}" if case.get("m") is not None else f"{case['k']}+{case.get('j', 0)}"
    return f"{case['script']}/{case['backend']}/{case.get('variant', 'plain')}/{case['cut']}@{at}"


def build_items(tier):
    items = []
    kinds = ["early", "order"] if tier == "quick" else ["early", "order", "batch"]
    bound = 1
    scripts = list(corpus.SCRIPTS)
    for script in scripts:
        for backend in BACKENDS:
            for second in (False, True):
                if second and (tier == "quick" and backend == "async"):
                    continue
                nev = count_events(script, backend, second)
                for k in range(0, nev + 1):
                    for cut in ("fin", "rst", "ctl-fin"):
                        if cut == "rst" and second and tier == "quick":
                            continue
                        if cut == "ctl-fin" and (second or "@data" not in corpus.SCRIPTS[script]):
                            continue
                        case = {"script": script, "backend": backend, "cut": cut, "k": k, "second": second,
                                "explore_all": tier != "quick" and not second}
                        items.append((case, bound, kinds, 3000 if tier == "quick" else 20000))
                    if not second and backend == "memory" and (tier != "quick" or script in ("login-only", "retr", "stor", "pasv-no-transfer")):
                        for cut in ("connect+close", "close+connect"):
                            case = {"script": script, "backend": backend, "cut": cut, "k": k, "j": 0, "second": False}
                            items.append((case, 1, kinds, 3000))
                    if not second and (backend == "memory" or tier != "quick"):
                        for j in (0, 1) if tier == "quick" else (0, 1, 2, 3):
                            case = {"script": script, "backend": backend, "cut": "cancel-run", "k": k, "j": j,
                                    "second": False}
                            items.append((case, 1 if tier != "quick" else 0, kinds, 3000))
                    if not second:
                        for j in range(0, 4 if tier == "quick" else 7):
                            case = {"script": script, "backend": backend, "cut": "close", "k": k, "j": j,
                                    "second": False}
                            items.append((case, 1 if (tier != "quick" or backend == "memory") else 0, kinds, 3000))
    for variant, vscripts in VARIANT_SCRIPTS.items():
        for script in vscripts:
            nev = count_events(script, "memory", False, variant)
            for k in range(0, nev + 1):
                for cut in (("fin", "rst") if variant != "tail" else ("ctl-fin", "fin")):
                    case = {"script": script, "backend": "memory", "cut": cut, "k": k, "second": False,
                            "variant": variant, "explore_all": tier != "quick"}
                    items.append((case, bound, kinds, 3000 if tier == "quick" else 20000))
                for j in range(0, 4 if tier == "quick" else 7):
                    case = {"script": script, "backend": "memory", "cut": "close", "k": k, "j": j, "second": False,
                            "variant": variant}
                    items.append((case, 1, kinds, 3000))
    # cuts that land while the server sleeps on a timer (throttle pause / slow backend call): before every advance
    # of virtual time of the fault-free run
    for variant, backend, vscripts in (("throttled", "memory", VARIANT_SCRIPTS["throttled"]),
                                       ("plain", "slow", corpus.TRANSFER_SCRIPTS + ["dirs", "rename"])):
        for script in vscripts:
            nadv = count_events(script, backend, False, variant, advances=True)
            for m in range(0, nadv):
                for cut in ("fin", "rst", "close"):
                    case = {"script": script, "backend": backend, "cut": cut, "k": -1, "m": m, "second": False,
                            "variant": variant}
                    items.append((case, bound, kinds, 3000))
    return items


def run(tier, seed, t0):
    items = build_items(tier)
    if seed:
        k = seed % len(items)
        items = items[k:] + items[:k]
    part = report.merge_all(report.pmap(_work, items))
    bounds = {"scripts": len(corpus.SCRIPTS), "backends": list(BACKENDS), "cut_kinds": ["fin (all sockets)", "rst", "fin on the control connection only", "server.close()",
                                                                                      "server.close() while another client connects (just before / just after)"],
              "cut_positions": "every delivered network event k of the fault-free run (k=0..N); server.close() "
                               "additionally at iterations j=0..%d after event k; for the throttled server and the slow "
                               "backend additionally before every advance of virtual time (the server sleeps on a timer)"
                               % (3 if tier == "quick" else 6),
              "deviation_bound": 1, "deviation_kinds": ["early", "order"] if tier == "quick" else ["early", "order", "batch"],
              "deviations_explored": "after the cut (quick); whole script (thorough, single session)",
              "server_variants": {k: VARIANT_SCRIPTS.get(k, "all scripts") for k in VARIANTS},
              "concurrent_sessions": "1 and 2", "send_window": "lock-step (1 byte)", "cases": len(items)}
    return report.finish(
        PID, tier, seed, "fault_enumeration", part, t0,
        rule="case = (script, backend, cut kind, cut position); executed on the real server in SimLoop with the clock "
             "frozen after the cut; every execution has a fault so all are non-trivial; distinct by delivery-trace hash",
        bounds=bounds,
        assumptions=["environment model SimLoop/SimNet", "release by garbage collection (StreamWriter.__del__) is not "
                     "counted as a release", "file handles are tracked only once the backend handed them to aioftp"])


def replay(path):
    data = json.loads(open(path).read())
    rp = data["replay"]
    res = run_cut(rp["case"], Chooser(rp["choices"], rp.get("kinds") or None))
    print(json.dumps({"case": rp["case"], "choices": rp["choices"], "problems": res["problems"]}, indent=1, default=repr))
    return 1 if res["problems"] else 0
